#!/bin/bash
# Offline setup: put mpmath (pure Python, from the local wheelhouse) beside the checks.
set -e
cd "$(dirname "$0")"
if [ ! -d .deps/mpmath ]; then
  /venv/bin/pip install --quiet --no-index --find-links /opt/veriftools/wheels --target .deps mpmath
fi
echo "setup ok"

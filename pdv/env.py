"""Environment pinning shared by the runner and the workers.

Nothing here imports jax: the runner stays light and the workers call
``setup_worker_env`` *before* their first jax import.
"""

import os
import subprocess
import sys

VERIF = os.path.dirname(os.path.dirname(os.path.abspath(__file__)))
DEPS = os.path.join(VERIF, ".deps")
PYTHON = "/venv/bin/python"
WHEELS = "/opt/veriftools/wheels"


def repo_path() -> str:
    """The tree under test: /repo unless PDV_REPO points at a scratch copy."""
    return os.environ.get("PDV_REPO", "/repo")


def ensure_deps() -> None:
    """Install mpmath into /verif/.deps from the offline wheelhouse if it is missing."""
    if os.path.isdir(os.path.join(DEPS, "mpmath")):
        return
    cmd = [PYTHON, "-m", "pip", "install", "--quiet", "--no-index"]
    cmd += ["--find-links", WHEELS, "--target", DEPS, "mpmath"]
    subprocess.run(cmd, check=True, stdout=subprocess.DEVNULL)


def worker_environ(*, x64: bool = True) -> dict:
    env = dict(os.environ)
    env["JAX_ENABLE_X64"] = "1" if x64 else "0"
    env["JAX_PLATFORMS"] = "cpu"
    env["XLA_FLAGS"] = (
        "--xla_cpu_multi_thread_eigen=false intra_op_parallelism_threads=1"
    )
    env["OMP_NUM_THREADS"] = "1"
    env["OPENBLAS_NUM_THREADS"] = "1"
    env["MKL_NUM_THREADS"] = "1"
    env["PYTHONHASHSEED"] = "0"
    env["PYTHONDONTWRITEBYTECODE"] = "1"
    env["PROBDIFFEQ_VERIF"] = "1"
    paths = [repo_path(), VERIF, DEPS]
    env["PYTHONPATH"] = os.pathsep.join(paths)
    return env


def assert_repo_import() -> str:
    """Return the directory probdiffeq was imported from (must be the tree under test)."""
    import probdiffeq

    where = os.path.dirname(os.path.dirname(os.path.abspath(probdiffeq.__file__)))
    want = os.path.abspath(repo_path())
    if os.path.realpath(where) != os.path.realpath(want):
        msg = f"probdiffeq imported from {where}, expected {want}"
        raise RuntimeError(msg)
    return where


if __name__ == "__main__":
    ensure_deps()
    sys.stdout.write("deps ok\n")

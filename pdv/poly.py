"""Polynomial vector fields / residuals with rational coefficients, and their exact
truncated power-series calculus over ``fractions.Fraction``.

Shares nothing with jax.experimental.jet: series are plain lists of Fractions.
Variables of a field of differential order k in d dimensions:
    index j*d + i  <->  i-th component of the j-th derivative, j < k;   index k*d <-> t.
"""

import math
from fractions import Fraction

from pdv.util import frac


class PolyField:
    def __init__(self, d, nblocks, terms, dout=None):
        """terms[i] = list of (coef, exps) for output component i; exps has nblocks*d+1 entries."""
        self.d = d
        self.nblocks = nblocks
        self.nvars = nblocks * d + 1
        self.terms = [[(frac(c), tuple(int(e) for e in ex)) for c, ex in ti] for ti in terms]
        self.dout = len(self.terms) if dout is None else dout
        assert all(len(ex) == self.nvars for ti in self.terms for _c, ex in ti)

    # ---- (de)serialisation ------------------------------------------------------
    def to_json(self):
        return {
            "d": self.d,
            "nblocks": self.nblocks,
            "terms": [[[str(c), list(ex)] for c, ex in ti] for ti in self.terms],
        }

    @classmethod
    def from_json(cls, js):
        return cls(js["d"], js["nblocks"], [[(c, ex) for c, ex in ti] for ti in js["terms"]])

    def describe(self):
        names = []
        for j in range(self.nblocks):
            for i in range(self.d):
                names.append("u" + "'" * j + f"[{i}]")
        names.append("t")
        out = []
        for ti in self.terms:
            parts = []
            for c, ex in ti:
                mon = "*".join(f"{n}^{e}" if e > 1 else n for n, e in zip(names, ex) if e)
                parts.append(f"{c}" + ("*" + mon if mon else ""))
            out.append(" + ".join(parts) if parts else "0")
        return out

    # ---- properties ---------------------------------------------------------------
    @property
    def depends_on_t(self):
        return any(ex[-1] > 0 for ti in self.terms for _c, ex in ti)

    @property
    def is_nonlinear(self):
        return any(sum(ex[:-1]) > 1 for ti in self.terms for _c, ex in ti)

    # ---- evaluation ---------------------------------------------------------------
    def eval_generic(self, vals, *, one=1, conv=None):
        """Evaluate with plain * and + on whatever ``vals`` contains (Fractions, mpf, floats, Series).

        ``one`` is the ring's unit, ``conv`` converts a Fraction coefficient into the ring.
        """
        out = []
        for ti in self.terms:
            acc = one * 0
            for c, ex in ti:
                term = one
                for v, e in zip(vals, ex):
                    for _ in range(e):
                        term = term * v
                acc = acc + term * (conv(c) if conv else c)
            out.append(acc)
        return out

    def eval_exact(self, blocks, t):
        """blocks: list of nblocks lists of d Fractions."""
        vals = [x for b in blocks for x in b] + [t]
        return self.eval_generic(vals, one=Fraction(1))

    def jax_fn(self):
        """f(*blocks, t) -> jnp array (dout,), blocks are (d,) arrays."""
        import jax.numpy as jnp

        terms = [[(float(c), ex) for c, ex in ti] for ti in self.terms]
        d, nb = self.d, self.nblocks

        def f(*blocks, t):
            assert len(blocks) == nb
            vals = [b[i] for b in blocks for i in range(d)] + [t]
            out = []
            for ti in terms:
                acc = 0.0 * (vals[0] + t)
                for c, ex in ti:
                    term = c
                    for v, e in zip(vals, ex):
                        if e:
                            term = term * v**e
                    acc = acc + term
                out.append(acc)
            return jnp.stack(out)

        return f

    def diff(self, var):
        """Partial derivative w.r.t. variable index ``var`` as a new PolyField."""
        terms = []
        for ti in self.terms:
            new = []
            for c, ex in ti:
                if ex[var] > 0:
                    e2 = list(ex)
                    e2[var] -= 1
                    new.append((c * ex[var], tuple(e2)))
            terms.append(new)
        return PolyField(self.d, self.nblocks, terms, dout=self.dout)

    def jacobian_exact(self, blocks, t):
        """dout x (nblocks*d) matrix of Fractions (derivatives w.r.t. state variables only)."""
        cols = []
        for var in range(self.nblocks * self.d):
            cols.append(self.diff(var).eval_exact(blocks, t))
        return [[cols[v][i] for v in range(self.nblocks * self.d)] for i in range(self.dout)]


# ---- truncated power series over Fraction --------------------------------------------


class Series:
    """Truncated power series sum_n c[n] s^n, n <= N."""

    __slots__ = ("c",)

    def __init__(self, c):
        self.c = list(c)

    @property
    def N(self):
        return len(self.c) - 1

    def __add__(self, other):
        if isinstance(other, Series):
            return Series([a + b for a, b in zip(self.c, other.c)])
        c = list(self.c)
        c[0] = c[0] + other
        return Series(c)

    __radd__ = __add__

    def __mul__(self, other):
        if isinstance(other, Series):
            n = len(self.c)
            out = [Fraction(0)] * n
            for i, a in enumerate(self.c):
                if a == 0:
                    continue
                for j in range(n - i):
                    out[i + j] += a * other.c[j]
            return Series(out)
        return Series([a * other for a in self.c])

    __rmul__ = __mul__


def ode_taylor_coefficients(field: PolyField, inits, t0, num):
    """Exact derivatives u, u', ..., u^(k-1+num) at t0 of the solution of u^(k) = f(u,..,u^(k-1),t).

    inits: list of k lists of d Fractions (u(t0), ..., u^(k-1)(t0)).
    Returns list of k+num lists (unnormalised derivatives, d Fractions each).
    """
    k, d = field.nblocks, field.d
    total = k + num
    # normalised coefficients c[n][i]
    c = [[Fraction(0)] * d for _ in range(total)]
    for j in range(k):
        for i in range(d):
            c[j][i] = frac(inits[j][i]) / math.factorial(j)
    N = max(num, 1)
    for n in range(num):
        # series of u^(j) up to order n: coeff m = c[m+j] * (m+j)!/m!
        vals = []
        for j in range(k):
            for i in range(d):
                ser = []
                for m in range(N):
                    if m <= n and m + j < total:
                        ser.append(c[m + j][i] * Fraction(math.factorial(m + j), math.factorial(m)))
                    else:
                        ser.append(Fraction(0))
                vals.append(Series(ser))
        tser = [Fraction(0)] * N
        tser[0] = frac(t0)
        if N > 1:
            tser[1] = Fraction(1)
        vals.append(Series(tser))
        one = Series([Fraction(1)] + [Fraction(0)] * (N - 1))
        F = field.eval_generic(vals, one=one)
        for i in range(d):
            Fi = F[i].c[n] if isinstance(F[i], Series) else (F[i] if n == 0 else Fraction(0))
            c[n + k][i] = Fi * Fraction(math.factorial(n), math.factorial(n + k))
    return [[c[n][i] * math.factorial(n) for i in range(d)] for n in range(total)]


def total_derivatives_along_curve(field: PolyField, tcoeffs, t0, m):
    """0th..m-th total time derivatives of g(u, u', .., u^(k-1), t) along the curve whose
    (unnormalised) derivatives at t0 are ``tcoeffs`` (list of >= k+m lists of d Fractions)."""
    k, d = field.nblocks, field.d
    N = m + 1
    assert len(tcoeffs) >= k + m
    vals = []
    for j in range(k):
        for i in range(d):
            ser = [frac(tcoeffs[mm + j][i]) / math.factorial(mm) for mm in range(N)]
            vals.append(Series(ser))
    tser = [Fraction(0)] * N
    tser[0] = frac(t0)
    if N > 1:
        tser[1] = Fraction(1)
    vals.append(Series(tser))
    one = Series([Fraction(1)] + [Fraction(0)] * (N - 1))
    G = field.eval_generic(vals, one=one)
    out = []
    for n in range(N):
        row = []
        for i in range(field.dout):
            gi = G[i]
            ci = gi.c[n] if isinstance(gi, Series) else (gi if n == 0 else Fraction(0))
            row.append(ci * math.factorial(n))
        out.append(row)
    return out


# ---- generators --------------------------------------------------------------------


def small_rational(rng, *, allow_zero=False, den=(1, 1, 2, 3, 4)):
    while True:
        v = Fraction(rng.randint(-3, 3), rng.choice(den))
        if v != 0 or allow_zero:
            return v


def random_field(rng, *, d, nblocks, degree=3, nterms=3, time_dep=True, dout=None, decay=True):
    """Random polynomial field; ``decay`` adds a -a*u_i (or -a*u'_i) term for tame dynamics."""
    nv = nblocks * d + 1
    dout = d if dout is None else dout
    terms = []
    for i in range(dout):
        ti = []
        for _ in range(rng.randint(1, nterms)):
            deg = rng.randint(0, degree)
            ex = [0] * nv
            for _ in range(deg):
                v = rng.randrange(nv if time_dep else nv - 1)
                ex[v] += 1
            ti.append((small_rational(rng) / (1 + sum(ex)), tuple(ex)))
        if decay and i < d:
            ex = [0] * nv
            ex[i] = 1
            ti.append((Fraction(-rng.randint(1, 3), 2), tuple(ex)))
        # combine like terms; a component must not vanish identically
        acc = {}
        for c, ex in ti:
            acc[ex] = acc.get(ex, Fraction(0)) + c
        ti = [(c, ex) for ex, c in acc.items() if c != 0]
        if not ti:
            ex = [0] * nv
            ex[i % (nv - 1)] = 1
            ti = [(Fraction(-1, 2), tuple(ex)), (Fraction(1, 3), tuple([0] * nv))]
        terms.append(ti)
    return PolyField(d, nblocks, terms, dout=dout)


def nondegenerate(field, inits, t0, num_coeffs):
    """True if no component of the exact solution is (locally) a polynomial of degree < num_coeffs+1:
    the derivatives of order num_coeffs and num_coeffs+1 are non-zero in every component. Degenerate
    problems make the local residual exactly zero, where calibration is 0/0 in any implementation."""
    k = field.nblocks
    der = ode_taylor_coefficients(field, inits, t0, max(num_coeffs + 2 - k, 1))
    for row in der[num_coeffs : num_coeffs + 2]:
        if any(x == 0 for x in row):
            return False
    return True


def random_problem(rng, *, d, nblocks, num_coeffs, degree=3, nterms=3, time_dep=True, tries=50):
    """(field, inits, t0) with rational data, non-degenerate up to the requested number of coefficients."""
    for _ in range(tries):
        field = random_field(rng, d=d, nblocks=nblocks, degree=degree, nterms=nterms, time_dep=time_dep)
        inits = [[small_rational(rng) for _ in range(d)] for _ in range(nblocks)]
        t0 = small_rational(rng, allow_zero=True)
        if all(any(sum(ex[:-1]) > 0 for _c, ex in ti) for ti in field.terms) and nondegenerate(field, inits, t0, num_coeffs):
            return field, inits, t0
    raise RuntimeError("no non-degenerate problem found")

"""Dense embedding of repository objects, written independently of the repo's own
``to_multivariate_normal`` / ``preconditioner_apply`` (those are under test in C08).

Common layout: coefficient-major, i.e. index = coeff * d + dim, which is what the
dense model uses natively (ravel of ``[u, u', ...]``).
"""

import numpy as np


def kind(obj) -> str:
    name = type(obj).__name__
    for k in ("Dense", "Isotropic", "BlockDiag"):
        if name.startswith(k):
            return k
    raise TypeError(name)


def tree_index(tree, i):
    import jax

    return jax.tree.map(lambda s: s[i], tree)


def tree_len(tree) -> int:
    import jax

    return int(jax.tree.leaves(tree)[0].shape[0])


def _bd_embed(blocks):
    """blocks: (d, a, b) -> (a*d, b*d) with entry [i*d+k, j*d+k] = blocks[k, i, j]."""
    d, a, b = blocks.shape
    out = np.zeros((a * d, b * d))
    for k in range(d):
        out[k::d, k::d] = blocks[k]
    return out


def normal_dense(rv):
    """(mean, covariance) of a repo normal in the common dense layout (float64)."""
    k = kind(rv)
    m = np.asarray(rv.mean_flat, dtype=float)
    C = np.asarray(rv.cholesky_flat, dtype=float)
    if k == "Dense":
        return m.copy(), C @ C.T
    if k == "Isotropic":
        _n, d = m.shape
        return m.reshape(-1), np.kron(C @ C.T, np.eye(d))
    d, _n = m.shape
    S = np.einsum("kij,klj->kil", C, C)
    return m.T.reshape(-1), _bd_embed(S)


def normal_sqrt_dense(rv):
    """(mean, L) with L L^T = covariance, dense layout."""
    k = kind(rv)
    m = np.asarray(rv.mean_flat, dtype=float)
    C = np.asarray(rv.cholesky_flat, dtype=float)
    if k == "Dense":
        return m.copy(), C.copy()
    if k == "Isotropic":
        _n, d = m.shape
        return m.reshape(-1), np.kron(C, np.eye(d))
    return m.T.reshape(-1), _bd_embed(C)


def cond_dense(c):
    """(G, xi, Sigma): y = G x + N(xi, Sigma) in unpreconditioned dense coordinates."""
    k = kind(c)
    A = np.asarray(c.A, dtype=float)
    tl = np.asarray(c.to_latent, dtype=float)
    to = np.asarray(c.to_observed, dtype=float)
    nm = np.asarray(c.noise.mean_flat, dtype=float)
    nc = np.asarray(c.noise.cholesky_flat, dtype=float)
    if k == "Dense":
        G = to[:, None] * A * tl[None, :]
        L = np.abs(to)[:, None] * nc
        return G, to * nm, L @ L.T
    if k == "Isotropic":
        _mo, d = nm.shape
        G1 = to[:, None] * A * tl[None, :]
        L = np.abs(to)[:, None] * nc
        xi = (to[:, None] * nm).reshape(-1)
        return np.kron(G1, np.eye(d)), xi, np.kron(L @ L.T, np.eye(d))
    Gk = to[:, :, None] * A * tl[:, None, :]
    Lk = np.abs(to)[:, :, None] * nc
    Sk = np.einsum("kij,klj->kil", Lk, Lk)
    xi = (to * nm).T.reshape(-1)
    return _bd_embed(Gk), xi, _bd_embed(Sk)


def scale_dense(scale, d):
    """Output scale (scalar, or per-dimension for block-diagonal) as a length-d vector."""
    s = np.asarray(scale, dtype=float)
    if s.ndim == 0:
        return np.full((d,), float(s))
    return s.reshape(-1)


def markov_joint(post):
    """Joint mean/cov over all times of a reverse MarkovSequence.

    ``post.marginal`` lives at the final time, ``post.conditional`` holds N backward
    kernels x_k | x_{k+1}. Returns (means [N+1, D], cov blocks dict, D).
    """
    mT, PT = normal_dense(post.marginal)
    N = tree_len(post.conditional)
    D = mT.size
    means = [None] * (N + 1)
    means[N] = mT
    cov = {(N, N): PT}
    for k in range(N - 1, -1, -1):
        G, xi, Sig = cond_dense(tree_index(post.conditional, k))
        means[k] = G @ means[k + 1] + xi
        cov[(k, k)] = G @ cov[(k + 1, k + 1)] @ G.T + Sig
        for j in range(k + 1, N + 1):
            cov[(k, j)] = G @ cov[(k + 1, j)]
    return np.stack(means), cov, D


def joint_matrix(means, cov, rows=None):
    """Assemble the full joint (optionally restricted to given row indices per time)."""
    T, D = means.shape
    rows = np.arange(D) if rows is None else np.asarray(rows)
    r = len(rows)
    M = np.concatenate([means[k][rows] for k in range(T)])
    P = np.zeros((T * r, T * r))
    for (a, b), v in cov.items():
        blk = v[np.ix_(rows, rows)]
        P[a * r : (a + 1) * r, b * r : (b + 1) * r] = blk
        P[b * r : (b + 1) * r, a * r : (a + 1) * r] = blk.T
    return M, P


# ---- exact embedding of raw fields (no floating-point arithmetic) and multi-precision joints -------------


def raw_embed_mat(fact, A, d):
    A = np.asarray(A, float)
    if fact == "Dense":
        return A
    if fact == "Isotropic":
        return np.kron(A, np.eye(d))
    return _bd_embed(A)


def raw_embed_vec(fact, v, d, repeat=False):
    """Mean-like arrays (repeat=False) or per-coefficient scalings (repeat=True) in the dense layout."""
    v = np.asarray(v, float)
    if fact == "Dense":
        return v
    if fact == "Isotropic":
        return np.repeat(v, d) if repeat else v.reshape(-1)
    return v.T.reshape(-1)


def dim_of(rv):
    k = kind(rv)
    m = np.asarray(rv.mean_flat)
    if k == "Dense":
        return None
    return m.shape[1] if k == "Isotropic" else m.shape[0]


def cond_mp(c, d):
    """(G, xi, Lq) as mpmath object arrays, computed exactly from the raw fields: y = G x + xi + Lq eps."""
    from pdv.refmodel import mpl

    k = kind(c)
    A = mpl.M(raw_embed_mat(k, c.A, d))
    tl = mpl.M(raw_embed_vec(k, c.to_latent, d, repeat=True))
    to = mpl.M(raw_embed_vec(k, c.to_observed, d, repeat=True))
    nm = mpl.M(raw_embed_vec(k, c.noise.mean_flat, d))
    nc = mpl.M(raw_embed_mat(k, c.noise.cholesky_flat, d))
    absto = np.vectorize(abs, otypes=[object])(to)
    return to[:, None] * A * tl[None, :], to * nm, absto[:, None] * nc


def normal_mp(rv, d):
    from pdv.refmodel import mpl

    k = kind(rv)
    return mpl.M(raw_embed_vec(k, rv.mean_flat, d)), mpl.M(raw_embed_mat(k, rv.cholesky_flat, d))


def markov_joint_mp(post, d):
    """Like markov_joint, in 50-digit arithmetic from raw fields (the float64 covariance recursion loses
    digits because unpreconditioned kernels span many orders of magnitude)."""
    from pdv.refmodel import mpl

    mT, LT = normal_mp(post.marginal, d)
    N = tree_len(post.conditional)
    means = [None] * (N + 1)
    means[N] = mT
    cov = {(N, N): mpl.mm(LT, LT.T)}
    # float64 rounding bound of the same mean recursion (m_k = G m_{k+1} + xi amplifies by |G|)
    c_eps = 20.0 * 2.0**-52
    _abs = np.vectorize(abs, otypes=[object])
    noise = [None] * (N + 1)
    noise[N] = c_eps * mpl.F(_abs(mT))
    markov_joint_mp.mean_noise = noise
    for k in range(N - 1, -1, -1):
        G, xi, Lq = cond_mp(tree_index(post.conditional, k), d)
        means[k] = mpl.mm(G, means[k + 1]) + xi
        absG = mpl.F(_abs(G))
        noise[k] = absG @ noise[k + 1] + c_eps * (absG @ mpl.F(_abs(means[k + 1])) + mpl.F(_abs(xi)))
        cov[(k, k)] = mpl.mm(G, cov[(k + 1, k + 1)], G.T) + mpl.mm(Lq, Lq.T)
        for j in range(k + 1, N + 1):
            cov[(k, j)] = mpl.mm(G, cov[(k + 1, j)])
    return means, cov


def joint_matrix_mp(means, cov, rows):
    from pdv.refmodel import mpl

    T = len(means)
    r = len(rows)
    M = np.concatenate([means[k][rows] for k in range(T)])
    P = mpl.zeros(T * r, T * r)
    for (a, b), v in cov.items():
        blk = v[np.ix_(rows, rows)]
        P[a * r : (a + 1) * r, b * r : (b + 1) * r] = blk
        P[b * r : (b + 1) * r, a * r : (a + 1) * r] = blk.T
    return M, P

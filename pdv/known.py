"""Known findings: committed file, never written at run time; matched by mechanism tags."""

import json
import os

_FILE = os.path.join(os.path.dirname(os.path.dirname(os.path.abspath(__file__))), "known_findings.json")


def _entries():
    try:
        with open(_FILE) as fh:
            return json.load(fh).get("findings", [])
    except FileNotFoundError:
        return []


def _ok(cond, value) -> bool:
    """cond: literal, list of literals, or {'min':..,'max':..}."""
    if isinstance(cond, dict):
        try:
            v = float(value)
        except (TypeError, ValueError):
            return False
        if "min" in cond and not v >= cond["min"]:
            return False
        return not ("max" in cond and not v <= cond["max"])
    if isinstance(cond, list):
        return value in cond
    return value == cond


def match(prop, violation):
    """Return the known-finding entry that explains this violation, or None."""
    tags = dict(violation.get("tags") or {})
    tags["suboracle"] = violation.get("suboracle")
    for e in _entries():
        if e.get("property") != prop or e.get("status") != "open":
            continue
        m = e.get("match", {})
        if all(k in tags and _ok(c, tags[k]) for k, c in m.items()):
            return e
    return None

"""Shard cases over worker subprocesses, aggregate verdicts, write evidence.

Usage: python -m pdv.runner <Cxx> [quick|thorough] [--replay FILE] [--jobs N] [--seed N]

Exit codes: 0 held on what was observed (KNOWN-FINDING lines allowed),
            1 violation (prints ``VIOLATION property=<id> replay=<path>``),
            2 inconclusive (deciding monitor not reached / harness error / watchdog).
"""

import argparse
import hashlib
import importlib
import json
import os
import subprocess
import sys
import tempfile
import time

from pdv import env, known

MAX_JOBS = 16


def _load(prop):
    return importlib.import_module(f"pdv.props.{prop.lower()}")


def _shard(cases, jobs):
    """Greedy bin packing of case groups (same group -> same worker: shared jit cache)."""
    groups = {}
    for c in cases:
        groups.setdefault((bool(c.get("x64", True)), c.get("group", c["id"])), []).append(c)
    items = sorted(
        groups.items(), key=lambda kv: -sum(float(c.get("cost", 1.0)) for c in kv[1])
    )
    n32 = sum(1 for (x64, _g), _ in items if not x64)
    bins = []
    if n32:
        k32 = max(1, min(jobs // 4 or 1, n32))
        bins += [{"x64": False, "load": 0.0, "cases": []} for _ in range(k32)]
    k64 = max(1, jobs - len(bins))
    bins += [{"x64": True, "load": 0.0, "cases": []} for _ in range(k64)]
    for (x64, _g), cs in items:
        cand = [b for b in bins if b["x64"] == x64]
        b = min(cand, key=lambda b: b["load"])
        b["cases"] += cs
        b["load"] += sum(float(c.get("cost", 1.0)) for c in cs)
    return [b for b in bins if b["cases"]]


def _run_workers(prop, bins, timeout_s):
    tmp = tempfile.mkdtemp(prefix=f"pdv_{prop}_", dir=os.environ.get("PDV_SCRATCH", "/var/tmp"))
    procs = []
    for i, b in enumerate(bins):
        cf, of, lf = (os.path.join(tmp, f"{k}{i}.jsonl") for k in ("cases", "out", "log"))
        with open(cf, "w") as fh:
            for c in b["cases"]:
                fh.write(json.dumps(c) + "\n")
        cmd = [env.PYTHON, "-X", "faulthandler", "-m", "pdv.worker", prop, cf, of]
        logfh = open(lf, "w")
        p = subprocess.Popen(
            cmd, env=env.worker_environ(x64=b["x64"]), stdout=logfh,
            stderr=subprocess.STDOUT, cwd=env.VERIF,
        )
        procs.append((p, b, of, lf, logfh))
    deadline = time.time() + timeout_s
    results, problems = [], []
    for p, b, of, lf, logfh in procs:
        try:
            p.wait(timeout=max(1.0, deadline - time.time()))
        except subprocess.TimeoutExpired:
            p.kill()
            p.wait()
            problems.append(f"watchdog: worker killed after {timeout_s}s")
        logfh.close()
        got = []
        if os.path.exists(of):
            with open(of) as fh:
                for line in fh:
                    line = line.strip()
                    if line:
                        try:
                            got.append(json.loads(line))
                        except json.JSONDecodeError:
                            pass
        results += got
        if len(got) < len(b["cases"]):
            tail = ""
            try:
                with open(lf) as fh:
                    tail = fh.read()[-1500:]
            except OSError:
                pass
            done = {r["id"] for r in got}
            missing = [c["id"] for c in b["cases"] if c["id"] not in done]
            problems.append(
                f"worker rc={p.returncode} finished {len(got)}/{len(b['cases'])} cases; "
                f"first missing={missing[:1]}; log tail: {tail}"
            )
    for p, b, of, lf, logfh in procs:
        for f in (of, lf, of.replace("out", "cases")):
            try:
                os.remove(f)
            except OSError:
                pass
    try:
        os.rmdir(tmp)
    except OSError:
        pass
    return results, problems


def _agg_obs(total, obs):
    for k, v in (obs or {}).items():
        if isinstance(v, bool):
            v = int(v)
        if not isinstance(v, (int, float)):
            continue
        if k.startswith("max_"):
            total[k] = max(total.get(k, v), v)
        elif k.startswith("min_"):
            total[k] = min(total.get(k, v), v)
        else:
            total[k] = total.get(k, 0) + v


def main(argv=None):
    ap = argparse.ArgumentParser()
    ap.add_argument("prop")
    ap.add_argument("tier", nargs="?", default=os.environ.get("VERIF_TIER", "quick"))
    ap.add_argument("--replay")
    ap.add_argument("--jobs", type=int, default=int(os.environ.get("PDV_JOBS", MAX_JOBS)))
    ap.add_argument("--seed", type=int, default=int(os.environ.get("VERIF_SEED", "0")))
    ap.add_argument("--limit", type=int, default=0, help="debug: only the first N cases")
    ap.add_argument("--only", default="", help="debug: only cases whose id contains this")
    ap.add_argument("--no-evidence", action="store_true")
    args = ap.parse_args(argv)
    prop = args.prop.upper()
    tier = args.tier if args.tier in ("quick", "thorough") else "quick"
    t0 = time.time()
    env.ensure_deps()
    sys.path[:0] = [env.DEPS]
    mod = _load(prop)

    if args.replay:
        with open(args.replay) as fh:
            rep = json.load(fh)
        cases = [rep["case"]]
    else:
        cases = mod.cases(tier, args.seed)
        if args.only:
            cases = [c for c in cases if args.only in c["id"]]
        if args.limit:
            cases = cases[: args.limit]
    ids = [c["id"] for c in cases]
    assert len(set(ids)) == len(ids), "case ids must be unique"
    timeout_s = float(os.environ.get("PDV_TIMEOUT") or getattr(mod, "TIMEOUT", {}).get(tier, 3000 if tier == "thorough" else 900))
    bins = _shard(cases, max(1, min(args.jobs, MAX_JOBS)))
    results, problems = _run_workers(prop, bins, timeout_s)

    obs, sigs = {}, set()
    viols, knowns, inconcl, harness = [], [], [], []
    samples = []
    by_id = {c["id"]: c for c in cases}
    for r in results:
        _agg_obs(obs, r.get("obs"))
        for s in r.get("sigs", []):
            sigs.add(s)
        if r.get("harness_error"):
            harness.append((r["id"], r["harness_error"]))
        if r.get("inconclusive"):
            inconcl.append((r["id"], r["inconclusive"]))
        for v in r.get("violations", []):
            v = dict(v)
            v["case_id"] = r["id"]
            kf = known.match(prop, v)
            (knowns if kf else viols).append((v, kf))
        if r.get("sample") is not None and len(samples) < 4:
            samples.append({"case": by_id.get(r["id"]), "observed": r["sample"]})

    # ---- verdict ---------------------------------------------------------
    required = getattr(mod, "REQUIRED_OBS", {})
    missing_obs = [f"{k}={obs.get(k, 0)}<{n}" for k, n in required.items() if obs.get(k, 0) < n]
    lines = []
    replay_dir = os.path.join(env.VERIF, "replays", prop)
    printed_kf = set()
    for v, kf in knowns:
        if kf["id"] not in printed_kf:
            printed_kf.add(kf["id"])
            n = sum(1 for _v, k in knowns if k["id"] == kf["id"])
            lines.append(f"KNOWN-FINDING: property={prop} {kf['id']}: {kf.get('short', kf['what'])} ({n} hits this run)")
    seen_replay = set()
    for v, _ in viols:
        cid = v["case_id"]
        if cid in seen_replay:
            continue
        seen_replay.add(cid)
        os.makedirs(replay_dir, exist_ok=True)
        h = hashlib.sha1(cid.encode()).hexdigest()[:12]
        path = os.path.join(replay_dir, f"{h}.json")
        with open(path, "w") as fh:
            json.dump(
                {"property": prop, "case": by_id[cid],
                 "violations": [x for x, _ in viols if x["case_id"] == cid]},
                fh, indent=1, default=str,
            )
        first = v
        lines.append(f"VIOLATION property={prop} replay={path}")
        lines.append(f"  suboracle={first.get('suboracle')} case={cid} :: {str(first.get('msg'))[:300]}")

    status = 0
    if viols:
        status = 1
    elif problems or harness or missing_obs or not results:
        status = 2
        for pmsg in problems:
            lines.append(f"INCONCLUSIVE property={prop} reason={pmsg[:2000]}")
        for cid, h in harness[:5]:
            lines.append(f"INCONCLUSIVE property={prop} reason=harness error in case {cid}: {h[:1500]}")
        if missing_obs:
            lines.append(f"INCONCLUSIVE property={prop} reason=deciding monitor not reached: {missing_obs}")
        if not results:
            lines.append(f"INCONCLUSIVE property={prop} reason=no case produced a result")
    if status == 1:
        for cid, h in harness[:3]:
            lines.append(f"note: harness error in case {cid}: {h[-700:]}")
    for cid, why in inconcl[:10]:
        lines.append(f"note: case {cid} inconclusive: {why}")

    wall = time.time() - t0
    n_nontrivial = len(sigs)
    if not args.replay and not args.no_evidence:
        ev = {
            "property_id": prop,
            "tier": tier,
            "seed": args.seed,
            "level": getattr(mod, "LEVEL", "exploration"),
            "coverage": {
                "evaluations": len(results),
                "distinct_nontrivial": n_nontrivial,
                "rule": getattr(mod, "RULE", ""),
                "samples": samples if samples else [{"case": c} for c in cases[:2]],
                "monitor_counters": {k: obs[k] for k in sorted(obs)},
                "inconclusive_cases": len(inconcl),
                "known_finding_hits": {k: sum(1 for _v, kf in knowns if kf["id"] == k) for k in sorted(printed_kf)},
                "workers": len(bins),
                "verdict": {0: "held on what was observed", 1: "violated", 2: "inconclusive"}[status],
            },
            "assumptions": list(getattr(mod, "ASSUMPTIONS", [])),
            "wall_s": round(wall, 2),
            "violations": len(viols),
        }
        if getattr(mod, "EXHAUSTIVE", False):
            ev["coverage"]["exhaustive"] = True
        os.makedirs(os.path.join(env.VERIF, "evidence"), exist_ok=True)
        with open(os.path.join(env.VERIF, "evidence", f"{prop}.json"), "w") as fh:
            json.dump(ev, fh, indent=1, default=str)

    for ln in lines:
        print(ln)
    top = {k: obs[k] for k in sorted(obs)}
    print(
        f"{prop} {tier} seed={args.seed}: cases={len(results)}/{len(cases)} distinct_nontrivial={n_nontrivial} "
        f"violations={len(viols)} known={len(knowns)} inconclusive_cases={len(inconcl)} wall={wall:.1f}s"
    )
    print(f"  counters: {json.dumps(top, default=str)[:1800]}")
    return status


if __name__ == "__main__":
    sys.exit(main())

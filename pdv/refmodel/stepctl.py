"""Offline checker of the step-control trace specification R1-R7 (see DESIGN.md, C06).

Works on the event log of pdv.record for scripted and real components alike.
"""

import math


def _ulp(x, n=4):
    return n * math.ulp(max(abs(x), 1e-300))


def check_trace(events, *, save_at, eps, clip, fmin, fmax, dt0, result_t, result_steps, partial=False):
    V = []  # (rule, message, event index)
    C = {"attempts": 0, "accepted": 0, "rejected": 0, "interp_fwd": 0, "interp_at": 0, "clipped_attempts": 0,
         "checkpoints": 0, "rejection_then_smaller": 0, "max_consecutive_rejections": 0}

    def bad(rule, msg, i):
        if len(V) < 20:
            V.append((rule, msg, i))

    underflowed = False
    accepted = {}  # uid -> time
    products = {}  # interpolation products usable as interp_from: uid -> time
    cur_k = 0
    last_rej = None
    pending = None  # the step event waiting for its error estimate
    pending_err = None
    proposal = dt0
    n_acc = 0
    consec = 0
    interps_this_advance = None
    reports = []  # (k, t, sol_steps)
    last_from_t = -math.inf
    for i, e in enumerate(events):
        ev = e["ev"]
        if ev == "init":
            accepted[e["uid"]] = e["t"]
            products[e["uid"]] = e["t"]
            if abs(e["t"] - save_at[0]) > 0:
                bad("R5", f"initial time {e['t']} differs from save_at[0]={save_at[0]}", i)
        elif ev == "advance_begin":
            cur_k += 1
            interps_this_advance = 0
            if cur_k >= len(save_at):
                bad("R5", "more advance loops than checkpoints", i)
                break
        elif ev == "advance_end":
            C["checkpoints"] += 1
            if interps_this_advance != 1:
                bad("R5", f"checkpoint {cur_k} (t={save_at[cur_k]}) reported {interps_this_advance} times", i)
        elif ev == "step":
            C["attempts"] += 1
            t_next = save_at[cur_k]
            if e["from"] not in accepted:
                bad("R1", f"attempt starts from state {e['from']} (t={e['from_t']}) that was never accepted", i)
            elif abs(accepted[e["from"]] - e["from_t"]) > _ulp(e["from_t"]):
                bad("R1", f"state {e['from']} was accepted at t={accepted[e['from']]} but is used at t={e['from_t']}", i)
            if e["from_t"] < last_from_t - _ulp(last_from_t):
                bad("R1", f"time went backwards: attempt from t={e['from_t']} after t={last_from_t}", i)
            last_from_t = max(last_from_t, e["from_t"])
            if not e["from_t"] + eps < t_next:
                bad("R5", f"attempt from t={e['from_t']} although checkpoint {t_next} is already within eps", i)
            expect = proposal
            if clip:
                rem = t_next - e["from_t"]
                if rem < proposal:
                    expect = rem
                    C["clipped_attempts"] += 1
                if e["from_t"] + e["dt"] > t_next + _ulp(t_next):
                    bad("R4", f"clipping on, but attempt from {e['from_t']} with dt={e['dt']} ends beyond checkpoint {t_next}", i)
            if abs(e["dt"] - expect) > _ulp(expect):
                bad("R3", f"attempted dt={e['dt']} is not the {'clipped ' if clip else ''}proposal {expect}", i)
            if not e["dt"] > 0 and not underflowed:
                bad("R3", f"non-positive step {e['dt']}", i)
            if last_rej is not None:
                if e["from"] != last_rej[0]:
                    bad("R2", f"after a rejection the next attempt starts from {e['from']}, not from the untouched state {last_rej[0]}", i)
                elif not e["dt"] < last_rej[1]:
                    bad("R2", f"after rejecting dt={last_rej[1]} the next attempt uses dt={e['dt']} (not strictly smaller)", i)
                else:
                    C["rejection_then_smaller"] += 1
            if abs((e["from_t"] + e["dt"]) - e["new_t"]) > _ulp(e["new_t"]):
                bad("R1", f"attempt from {e['from_t']} with dt={e['dt']} produced a state at t={e['new_t']}", i)
            pending = e
        elif ev == "error":
            if pending is None or e["prop"] != pending["new"] or e["prev"] != pending["from"]:
                bad("R1", "error estimate does not refer to the attempt just made", i)
            if abs(e["dt"] - (pending or e)["dt"]) > 0:
                bad("R3", "error estimate saw a different dt than the attempt", i)
            pending_err = e
        elif ev == "ctrl":
            if pending is None or pending_err is None:
                bad("R3", "controller called without an attempt", i)
                continue
            if e["dt_in"] != pending["dt"]:
                bad("R3", f"controller input dt={e['dt_in']} is not the attempted dt={pending['dt']}", i)
            if e["ep"] != pending_err["ep"]:
                bad("R3", "controller saw a different error than the estimator returned", i)
            underflowed = bool(e["dt_in"] <= 1e-290)  # the following proposal may have been flushed to zero
            ratio = e["dt_out"] / e["dt_in"] if e["dt_in"] > 0 else 1.0
            # below ~1e-300 products fall into the subnormal range, which XLA flushes to zero: not judged
            if e["dt_in"] > 1e-290 and not (fmin * (1 - 1e-14) <= ratio <= fmax * (1 + 1e-14)):
                bad("R3", f"proposal/attempt = {ratio} outside [{fmin}, {fmax}]", i)
            proposal = e["dt_out"]
            if pending_err["ep"] >= 1.0:
                accepted[pending["new"]] = pending["new_t"]
                products[pending["new"]] = pending["new_t"]
                n_acc += 1
                C["accepted"] += 1
                last_rej = None
                consec = 0
            else:
                C["rejected"] += 1
                last_rej = (pending["from"], pending["dt"])
                consec += 1
                C["max_consecutive_rejections"] = max(C["max_consecutive_rejections"], consec)
            pending = pending_err = None
        elif ev == "rejection_end":
            if last_rej is not None:
                bad("R1", "rejection loop ended on a rejected attempt", i)
        elif ev == "interp":
            t_next = save_at[cur_k]
            C["interp_" + e["kind"]] += 1
            if interps_this_advance is not None:
                interps_this_advance += 1
                if interps_this_advance > 1:
                    bad("R5", f"checkpoint {cur_k} (t={t_next}) reported more than once", i)
            if e["t"] != t_next:
                bad("R5", f"interpolation target {e['t']} is not the current checkpoint {t_next}", i)
            if e["to"] not in accepted:
                bad("R1", f"interpolation towards state {e['to']} that was never accepted", i)
            if e["from"] not in products:
                bad("R1", f"interpolation from state {e['from']} that is neither accepted nor an interpolation product", i)
            if e["from_t"] > e["t"] + eps + _ulp(e["t"]):
                bad("R6", f"interpolating to t={e['t']} from a later state t={e['from_t']}", i)
            if e["kind"] == "fwd":
                if not e["to_t"] > e["t"] + eps - _ulp(e["t"]):
                    bad("R6", f"off-grid interpolation used although the step end {e['to_t']} is within eps of {e['t']}", i)
            else:
                if abs(e["to_t"] - e["t"]) > eps + _ulp(e["t"]):
                    bad("R6", f"at-checkpoint branch used although the step end {e['to_t']} is not within eps of {e['t']}", i)
            if e["sol_steps"] != n_acc:
                bad("R7", f"checkpoint {e['t']} reports num_steps={e['sol_steps']} but {n_acc} attempts were accepted so far", i)
            accepted[e["new_step_from"]] = e.get("new_step_from_t", e["to_t"])
            products[e["new_step_from"]] = e.get("new_step_from_t", e["to_t"])
            products[e["new_interp_from"]] = e.get("new_interp_from_t", e["t"] if e["kind"] == "fwd" else e["to_t"])
            products[e["sol"]] = e["t"]
            reports.append((cur_k, e["t"] if e["kind"] == "fwd" else e["to_t"], e["sol_steps"]))
    # ---- result ------------------------------------------------------------------------------
    if partial:
        return V, C
    if len(result_t) != len(save_at):
        bad("R5", f"{len(result_t)} reported times for {len(save_at)} requested", len(events))
    else:
        for k, (a, b) in enumerate(zip(result_t, save_at)):
            if not abs(a - b) <= eps + _ulp(b):
                bad("R5", f"reported time {a} for requested {b} (index {k})", len(events))
        if any(result_t[k + 1] < result_t[k] for k in range(len(result_t) - 1)):
            bad("R5", "reported times are not in order", len(events))
    if C["checkpoints"] != len(save_at) - 1:
        bad("R5", f"{C['checkpoints']} checkpoints completed, {len(save_at) - 1} requested", len(events))
    if len(result_steps) == len(save_at):
        by_k = {k: s for k, _t, s in reports}
        for k in range(1, len(save_at)):
            if k in by_k and int(result_steps[k]) != by_k[k]:
                bad("R7", f"returned num_steps[{k}]={int(result_steps[k])} but the checkpoint report carried {by_k[k]}", len(events))
    return V, C

"""Reference smoothing posterior (RTS in 50 digits) over step ends united with output times."""

import numpy as np

from pdv.refmodel import kalman, mpl


def smoother_reference(model, obs_times, filt, step_sigmas, out_times, eps=1e-8):
    """Exact Gaussian smoothing posterior of the linearised model conditioned on all steps.

    obs_times[0..K]: t0 and the ends of all accepted steps (may extend beyond the last output time).
    filt[k]: (m, P) mp arrays, filtering marginal at obs_times[k] in the *working* scale.
    step_sigmas[k], k=1..K: scale multiplying the unit process noise on (obs_times[k-1], obs_times[k]]
        (scalar mpf or per-dimension object array); index 0 unused.
    out_times: requested output times (sorted). An output within eps of a step end is that step end.
    Returns (marg, cross, filt_out): marg[i] = smoothing (m, P) at out_times[i]; cross[i] = Cov(x_i, x_{i+1} | all);
    filt_out[i] = filtering/prediction marginal at out_times[i].
    """
    nodes = [dict(t=float(t), obs=k) for k, t in enumerate(obs_times)]
    out_node = []
    for t in out_times:
        hit = None
        for nd in nodes:
            if nd.get("obs") is not None and abs(nd["t"] - t) <= eps:
                hit = nd
                break
        if hit is None:
            hit = dict(t=float(t), obs=None)
            nodes.append(hit)
        out_node.append(hit)
    nodes.sort(key=lambda nd: nd["t"])
    # which step covers a node: first obs index k with obs_times[k] >= t
    def sigma_for(t):
        for k in range(1, len(obs_times)):
            if t <= obs_times[k] + eps:
                return step_sigmas[k]
        return step_sigmas[-1]

    trans = []
    for a, b in zip(nodes[:-1], nodes[1:]):
        h = b["t"] - a["t"]
        Phi, Q = model.transition(h)
        Q = kalman.scale_cov(Q, sigma_for(b["t"]), model.n, model.d)
        trans.append((Phi, Q))
    fm = []
    for j, nd in enumerate(nodes):
        if nd["obs"] is not None:
            fm.append(filt[nd["obs"]])
        else:
            Phi, Q = trans[j - 1]
            m, P = fm[j - 1]
            fm.append((mpl.mm(Phi, m), mpl.mm(Phi, P, Phi.T) + Q))
    ms, Ps, Gs = kalman.rts(fm, trans)
    noise = kalman.rts.last_noise
    idx = {id(nd): j for j, nd in enumerate(nodes)}
    marg, cross, filt_out = [], [], []
    smoother_reference.mean_noise = []
    for i, nd in enumerate(out_node):
        j = idx[id(nd)]
        marg.append((ms[j], Ps[j]))
        filt_out.append(fm[j])
        smoother_reference.mean_noise.append(noise[j])
    for i in range(len(out_node) - 1):
        a, b = idx[id(out_node[i])], idx[id(out_node[i + 1])]
        if a == b:
            cross.append(Ps[a])
            continue
        C = Ps[b]
        for j in range(b - 1, a - 1, -1):
            C = mpl.mm(Gs[j], C)
        cross.append(C)
    return marg, cross, filt_out

"""Textbook (covariance-form) extended Kalman filter and RTS smoother in 50-digit arithmetic.

State layout: dense, coefficient-major (index = coeff*d + dim). Everything is an object array of mpf.
The model pieces (transition Phi/Q, linearisation H/z) come from pdv.refmodel.{sde,lin}.
"""

import numpy as np

from pdv.refmodel import lin, mpl, sde

mp = mpl.mp


class Model:
    """Prior + constraint description that the reference filter needs."""

    def __init__(self, *, field, fact, ts, nu, d, base, damp=0.0, prior="iwp", drift=None):
        self.field, self.fact, self.ts, self.nu, self.d = field, fact, ts, nu, d
        self.n = nu + 1
        b = np.asarray(1.0 if base is None else base, float)
        self.lam = np.full((d,), float(b.reshape(-1)[0])) if b.size == 1 else b.reshape(-1)
        self.damp = float(damp)
        self.prior = prior
        self.drift = drift  # SDE drift matrix for exponential priors (dense only)

    def transition(self, h):
        """(Phi, Q_unit) as mp arrays for step h (float, converted exactly)."""
        from fractions import Fraction

        if self.prior == "iwp":
            Phi, Q = sde.iwp_exact(self.nu, Fraction(float(h)))
            d = self.d
            N = self.n * d
            P_ = mpl.zeros(N, N)
            Q_ = mpl.zeros(N, N)
            lam2 = [mp.mpf(float(x)) ** 2 for x in self.lam]
            for i in range(self.n):
                for j in range(self.n):
                    pij = mp.mpf(Phi[i][j].numerator) / mp.mpf(Phi[i][j].denominator)
                    qij = mp.mpf(Q[i][j].numerator) / mp.mpf(Q[i][j].denominator)
                    for k in range(d):
                        P_[i * d + k, j * d + k] = pij
                        Q_[i * d + k, j * d + k] = qij * lam2[k]
            return P_, Q_
        B = np.kron(np.eye(self.n)[:, -1:], np.diag(self.lam))
        Phi, Q = sde.van_loan(self.drift, B, float(h), dps=80)
        return mpl.M(Phi), mpl.M(Q)

    def linearize(self, m, t):
        """(H, z) at mean m (mp array): float evaluation is enough for H; z is recomputed in mp."""
        mf = mpl.F(m)
        H, _ = lin.linearize(self.field, fact=self.fact, ts=self.ts, m=mf, n=self.n, t=t)
        d, order = self.d, self.field.nblocks
        vals = [m[j * d + k] for j in range(order) for k in range(d)] + [mp.mpf(float(t))]
        f = self.field.eval_generic(vals, one=mp.mpf(1), conv=lambda c: mp.mpf(c.numerator) / mp.mpf(c.denominator))
        z = np.asarray([m[order * d + k] - f[k] for k in range(d)], dtype=object)
        return mpl.M(H), z

    def residual_noise(self, m_pred, absPhi_m, t, c=100.0):
        """Bound on the float64 rounding noise in z = x[order] - f(x[:order], t) when x = Phi m is itself
        computed in float64: c*eps*(|Phi||m| rows + sum of |terms of f| + |J| |Phi||m|)."""
        eps = 2.0**-52
        d, order = self.d, self.field.nblocks
        mf = np.abs(mpl.F(m_pred))
        am = mpl.F(absPhi_m)
        vals = [mf[j * d + k] for j in range(order) for k in range(d)] + [abs(float(t))]
        absfield = type(self.field)(self.field.d, self.field.nblocks, [[(abs(cf), ex) for cf, ex in ti] for ti in self.field.terms])
        fabs = np.asarray(absfield.eval_generic(vals, one=1.0, conv=float), float)
        J = np.abs(lin.field_jac(absfield, [mf[j * d : (j + 1) * d] for j in range(order)], abs(float(t))))
        return c * eps * (am[order * d : (order + 1) * d] + fabs + J @ am[: order * d])


def gain_update(m, P, H, z, R, *, pinv=False, want_gain=False):
    """Condition N(m,P) on H x + b = 0 where z = H m + b (+ noise R). Returns (m+, P+, S[, K])."""
    S = mpl.mm(H, P, H.T) + R
    PHt = mpl.mm(P, H.T)
    if pinv:
        Sinv, _rank = mpl.pinv_sym(S)
        K = mpl.mm(PHt, Sinv)
    else:
        K = mpl.solve(S, PHt.T).T
    m_new = m - mpl.mm(K, z)
    P_new = P - mpl.mm(K, S, K.T)
    if want_gain:
        return m_new, 0.5 * (P_new + P_new.T), S, K
    return m_new, 0.5 * (P_new + P_new.T), S


def rms_sensitivity(z, S, dz, *, fact, d):
    """Absolute bound on the change of whitened_rms under |dz|-sized perturbations of z:
    sigma = ||S^-1/2 z||/sqrt(k) is a norm, so |d sigma| <= ||S^-1/2 dz||/sqrt(k) <= sqrt(|dz|^T |S^-1| |dz| / k)."""
    k = len(z)
    dzm = mpl.M(dz)
    _abs = np.vectorize(abs, otypes=[object])

    def bound(Sb, dzb):
        kk = len(dzb)
        Sinv = mpl.solve(Sb, mpl.eye(kk))
        return float(mp.sqrt(mpl.mm(dzb, _abs(Sinv), dzb) / kk))

    if fact == "blockdiag":
        return np.asarray([bound(S[np.ix_(list(range(dim, k, d)), list(range(dim, k, d)))], dzm[list(range(dim, k, d))]) for dim in range(d)])
    return bound(S, dzm)


def whitened_rms(z, S, *, fact, d):
    """sqrt(z^T S^-1 z / dim); per dimension (vector) for the block-diagonal model."""
    k = len(z)
    if fact == "blockdiag":
        out = []
        for dim in range(d):
            idx = list(range(dim, k, d))
            w = mpl.solve(S[np.ix_(idx, idx)], z[idx])
            out.append(mp.sqrt(sum(a * b for a, b in zip(z[idx], w)) / len(idx)))
        return np.asarray(out, dtype=object)
    w = mpl.solve(S, z)
    return mp.sqrt(sum(a * b for a, b in zip(z, w)) / k)


def scale_matrix(sig, n, d):
    """Diagonal of the covariance scaling: scalar -> sig^2 everywhere; vector (per dim) -> sig_k^2."""
    if isinstance(sig, np.ndarray):
        v = np.asarray([sig[i % d] for i in range(n * d)], dtype=object)
    else:
        v = np.asarray([sig for _ in range(n * d)], dtype=object)
    return v


def scale_cov(P, sig, n, d):
    v = scale_matrix(sig, n, d)
    return P * v[:, None] * v[None, :]


def R_of(model):
    k = model.d
    R = mpl.zeros(k, k)
    for i in range(k):
        R[i, i] = mp.mpf(model.damp) ** 2
    return R


def step(model, m, P, t, h, *, cal, relinearize=False):
    """One solver step. Returns dict(m, P, sigma (per-step scale or MLE term), m_pred, P_pred, H, z, S, Phi, Q)."""
    Phi, Q = model.transition(h)
    m_pred = mpl.mm(Phi, m)
    R = R_of(model)
    t1 = t + h
    _abs = np.vectorize(abs, otypes=[object])
    dz = model.residual_noise(m_pred, mpl.mm(_abs(Phi), _abs(m)), t1)
    if cal == "dynamic":
        H, z = model.linearize(m_pred, t1)
        S0 = mpl.mm(H, Q, H.T) + R
        sig = whitened_rms(z, S0, fact=model.fact, d=model.d)
        sens = rms_sensitivity(z, S0, dz, fact=model.fact, d=model.d)
        Qs = scale_cov(Q, sig, model.n, model.d)
        P_pred = mpl.mm(Phi, P, Phi.T) + Qs
        if relinearize:
            H, z = model.linearize(m_pred, t1)
        m_new, P_new, S, K = gain_update(m_pred, P_pred, H, z, R, want_gain=True)
        dm = mpl.F(mpl.mm(np.vectorize(abs, otypes=[object])(K), mpl.M(dz)))
        return dict(m=m_new, P=P_new, sigma=sig, m_pred=m_pred, P_pred=P_pred, H=H, z=z, S=S, Phi=Phi, Q=Qs, dz=dz, S_cal=S0,
                    mean_noise=dm, sigma_noise=sens, amplification=_amplification(model, K, H, Phi, m_pred, t1),
                    dz_dm=_residual_sens(model, Phi, m_pred, t1))
    P_pred = mpl.mm(Phi, P, Phi.T) + Q
    H, z = model.linearize(m_pred, t1)
    m_new, P_new, S, K = gain_update(m_pred, P_pred, H, z, R, want_gain=True)
    sig = whitened_rms(z, S, fact=model.fact, d=model.d) if cal == "mle" else None
    sens = rms_sensitivity(z, S, dz, fact=model.fact, d=model.d) if cal == "mle" else None
    dm = mpl.F(mpl.mm(np.vectorize(abs, otypes=[object])(K), mpl.M(dz)))
    return dict(m=m_new, P=P_new, sigma=sig, m_pred=m_pred, P_pred=P_pred, H=H, z=z, S=S, Phi=Phi, Q=Q, dz=dz, S_cal=S,
                mean_noise=dm, sigma_noise=sens, amplification=_amplification(model, K, H, Phi, m_pred, t1),
                dz_dm=_residual_sens(model, Phi, m_pred, t1))


def _residual_sens(model, Phi, m_pred, t1):
    """Entrywise bound |d z_k / d m_{k-1}| of the residual z = x[order] - f(x[:order], t1), x = Phi m: (|H0| + |J|) |Phi|.
    Rounding noise carried by the previous mean reaches the next residual (hence the scale estimates) through it."""
    _abs = np.vectorize(abs, otypes=[object])
    n, d, order = model.n, model.d, model.field.nblocks
    N = n * d
    mf = mpl.F(m_pred)
    J = lin.field_jac(model.field, [mf[j * d : (j + 1) * d] for j in range(order)], t1)
    A = np.zeros((d, N))
    A[:, : order * d] = np.abs(J)
    for k in range(d):
        A[k, order * d + k] += 1.0
    return A @ np.abs(mpl.F(Phi))


def _amplification(model, K, H, Phi, m_pred, t1):
    """Entrywise bound |d m_k / d m_{k-1}| of one filter step: (|I - K H0| + |K||J|) |Phi|, where H0 selects the
    observed coefficient and J is the vector-field Jacobian (covers zeroth- and first-order linearisation)."""
    _abs = np.vectorize(abs, otypes=[object])
    n, d, order = model.n, model.d, model.field.nblocks
    N = n * d
    H0 = mpl.zeros(d, N)
    for k in range(d):
        H0[k, order * d + k] = mp.mpf(1)
    mf = mpl.F(m_pred)
    J = lin.field_jac(model.field, [mf[j * d : (j + 1) * d] for j in range(order)], t1)
    Jfull = np.zeros((d, N))
    Jfull[:, : order * d] = np.abs(J)
    A = _abs(mpl.eye(N) - mpl.mm(K, H0)) + mpl.mm(_abs(K), mpl.M(Jfull))
    return mpl.F(mpl.mm(A, _abs(Phi)))


def init_update(model, m0, P0, t0, *, cal):
    """The optional initial-constraint update (pseudo-inverse gain, as the repo uses lstsq there)."""
    H, z = model.linearize(m0, t0)
    R = R_of(model)
    m, P, S = gain_update(m0, P0, H, z, R, pinv=True)
    sig = None
    if cal == "mle":
        sig = whitened_rms(z, S, fact=model.fact, d=model.d)
    return m, P, sig


def mle_running(run, n_data, new):
    """hypot(sqrt(n/(n+1)) run, sqrt(1/(n+1)) new), elementwise."""
    a = mp.mpf(n_data) / (n_data + 1)
    b = mp.mpf(1) / (n_data + 1)
    if isinstance(new, np.ndarray):
        return np.asarray([mp.sqrt(a * r * r + b * x * x) for r, x in zip(run, new)], dtype=object)
    return mp.sqrt(a * run * run + b * new * new)


def filter_run(model, m0, P0, grid, *, cal, relinearize=False, constraint_init=False, correct=True):
    """End-to-end reference filter. Returns list of per-time dicts and the final calibrated scale."""
    m, P = m0, P0
    n_data = 0
    zero = mp.mpf(0)
    run = np.asarray([zero] * model.d, dtype=object) if model.fact == "blockdiag" else zero
    if constraint_init:
        m, P, sig0 = init_update(model, m, P, grid[0], cal=cal)
        if cal == "mle":
            run = sig0
            n_data = 1
    out = [dict(m=m, P=P, sigma=None)]
    t = grid[0]
    for k in range(1, len(grid)):
        h = grid[k] - t
        st = step(model, m, P, t, h, cal=cal, relinearize=relinearize)
        m, P = st["m"], st["P"]
        if cal == "mle":
            run = mle_running(run, n_data, st["sigma"])
            n_data += 1
        out.append(st)
        t = grid[k]
    final = None
    if cal == "mle":
        N = len(grid) - 1
        if correct:
            final = run / mp.sqrt(N) if not isinstance(run, np.ndarray) else np.asarray([r / mp.sqrt(N) for r in run], dtype=object)
        else:
            final = run
    return out, final


def rts(filt, trans):
    """RTS smoother. filt: list of (m_k, P_k) filtering marginals; trans: list of (Phi_k, Q_k) from k to k+1.
    Returns smoothed (m, P) per time and the smoothing gains G_k (x_k | x_{k+1})."""
    T = len(filt)
    ms, Ps = [None] * T, [None] * T
    Gs = [None] * (T - 1)
    ms[-1], Ps[-1] = filt[-1]
    # float64 rounding bound of the smoothed means: m_s = m + G (m_s+ - Phi m) is a gain applied to a
    # difference of nearly equal vectors; c*eps*(|m_s+| + |Phi||m|) of noise is amplified by |G| and propagates.
    c_eps = 10.0 * 2.0**-52
    noise = [None] * T
    noise[-1] = np.zeros(len(ms[-1]))
    _abs = np.vectorize(abs, otypes=[object])
    for k in range(T - 2, -1, -1):
        m, P = filt[k]
        Phi, Q = trans[k]
        mp_ = mpl.mm(Phi, m)
        Pp = mpl.mm(Phi, P, Phi.T) + Q
        try:
            G = mpl.solve(Pp, mpl.mm(Phi, P)).T  # P Phi^T Pp^-1 (Pp symmetric)
        except ZeroDivisionError:
            Pinv, _ = mpl.pinv_sym(Pp)
            G = mpl.mm(P, Phi.T, Pinv)
        ms[k] = m + mpl.mm(G, ms[k + 1] - mp_)
        Ps[k] = P + mpl.mm(G, Ps[k + 1] - Pp, G.T)
        Ps[k] = 0.5 * (Ps[k] + Ps[k].T)
        Gs[k] = G
        inner = c_eps * (mpl.F(_abs(ms[k + 1])) + mpl.F(mpl.mm(_abs(Phi), _abs(m)))) + noise[k + 1]
        noise[k] = mpl.F(_abs(G)) @ inner + c_eps * mpl.F(_abs(m))
    rts.last_noise = noise
    return ms, Ps, Gs

"""Multi-precision dense linear algebra on numpy object arrays of mpmath.mpf.

Only what the reference models need: conversion, products (numpy handles object arrays),
linear solves, symmetric pseudo-inverse, Cholesky, log-determinant.
"""

import mpmath as mp
import numpy as np

mp.mp.dps = 50


def M(x):
    """float array -> object array of mpf (exact conversion)."""
    a = np.asarray(x, dtype=float)
    out = np.empty(a.shape, dtype=object)
    for idx in np.ndindex(a.shape):
        out[idx] = mp.mpf(float(a[idx]))
    return out


def F(x):
    """object array of mpf -> float64 array."""
    a = np.asarray(x, dtype=object)
    out = np.empty(a.shape, dtype=float)
    for idx in np.ndindex(a.shape):
        out[idx] = float(a[idx])
    return out


def eye(n):
    out = np.empty((n, n), dtype=object)
    for i in range(n):
        for j in range(n):
            out[i, j] = mp.mpf(1 if i == j else 0)
    return out


def zeros(*shape):
    out = np.empty(shape, dtype=object)
    for idx in np.ndindex(shape):
        out[idx] = mp.mpf(0)
    return out


def mm(*mats):
    out = mats[0]
    for m in mats[1:]:
        out = np.dot(out, m)
    return out


def solve(A, B):
    """Solve A X = B by Gaussian elimination with partial pivoting (A square, non-singular)."""
    A = np.array(A, dtype=object, copy=True)
    B = np.array(B, dtype=object, copy=True)
    vec = B.ndim == 1
    if vec:
        B = B[:, None]
    n = A.shape[0]
    for c in range(n):
        p = max(range(c, n), key=lambda r: abs(A[r, c]))
        if A[p, c] == 0:
            raise ZeroDivisionError("singular matrix")
        if p != c:
            A[[c, p]] = A[[p, c]]
            B[[c, p]] = B[[p, c]]
        for r in range(c + 1, n):
            f = A[r, c] / A[c, c]
            if f != 0:
                A[r, c:] = A[r, c:] - f * A[c, c:]
                B[r] = B[r] - f * B[c]
    X = zeros(*B.shape)
    for r in range(n - 1, -1, -1):
        acc = B[r].copy()
        for c in range(r + 1, n):
            acc = acc - A[r, c] * X[c]
        X[r] = acc / A[r, r]
    return X[:, 0] if vec else X


def sym_eig(S):
    """Eigen-decomposition of a symmetric object matrix: (values list, vectors object array)."""
    n = S.shape[0]
    Sm = mp.matrix(n, n)
    for i in range(n):
        for j in range(n):
            Sm[i, j] = (S[i, j] + S[j, i]) / 2
    E, Q = mp.eigsy(Sm)
    vals = [E[i] for i in range(n)]
    vecs = np.empty((n, n), dtype=object)
    for i in range(n):
        for j in range(n):
            vecs[i, j] = Q[i, j]
    return vals, vecs


def pinv_sym(S, rtol=mp.mpf(10) ** -30):
    """Pseudo-inverse and rank of a symmetric PSD matrix."""
    n = S.shape[0]
    if n == 0:
        return S, 0
    vals, vecs = sym_eig(S)
    top = max(abs(v) for v in vals)
    out = zeros(n, n)
    rank = 0
    for k, v in enumerate(vals):
        if top > 0 and abs(v) > rtol * top:
            rank += 1
            col = vecs[:, k]
            out = out + np.outer(col, col) / v
    return out, rank


def logdet_and_maha(S, r):
    """log det S and r^T S^{-1} r for symmetric positive definite S."""
    x = solve(S, r)
    maha = sum(a * b for a, b in zip(r, x))
    # log det via elimination
    A = np.array(S, dtype=object, copy=True)
    n = A.shape[0]
    ld = mp.mpf(0)
    for c in range(n):
        p = max(range(c, n), key=lambda rr: abs(A[rr, c]))
        if p != c:
            A[[c, p]] = A[[p, c]]
        ld += mp.log(abs(A[c, c]))
        for rr in range(c + 1, n):
            f = A[rr, c] / A[c, c]
            if f != 0:
                A[rr, c:] = A[rr, c:] - f * A[c, c:]
    return ld, maha


def sqrt(x):
    return mp.sqrt(x)

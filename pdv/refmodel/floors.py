"""Floors for comparing two float64 results: standard deviations far below the prior's own process-noise
scale over one step belong to exactly observed coefficients and are pure rounding noise on both sides."""

import math

import numpy as np


def process_noise_std(nu, d, h, scale=1.0):
    """sqrt(diag Q(h)) of the nu-times integrated Wiener process, dense layout (length (nu+1)*d)."""
    out = []
    for i in range(nu + 1):
        q = h ** (2 * nu + 1 - 2 * i) / ((2 * nu + 1 - 2 * i) * math.factorial(nu - i) ** 2)
        out += [math.sqrt(q) * scale] * d
    return np.asarray(out)


def floors_for_grid(nu, d, grid, rel=1e-7, scale=1.0):
    hs = np.diff(np.asarray(grid, float))
    hs = np.concatenate([hs[:1], hs])
    return [rel * process_noise_std(nu, d, max(float(h), 1e-12), scale) for h in hs]

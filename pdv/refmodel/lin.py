"""Reference linearisation of ODE constraints for polynomial problems (exact Jacobians),
reduced to each factorisation's documented structure, in the common dense layout."""

import numpy as np


def field_eval(field, blocks, t):
    vals = [float(x) for b in blocks for x in b] + [float(t)]
    return np.asarray(field.eval_generic(vals, one=1.0, conv=float), dtype=float)


def field_jac(field, blocks, t):
    """(dout, nblocks*d) Jacobian w.r.t. the state variables (block-major = coefficient-major)."""
    vals = [float(x) for b in blocks for x in b] + [float(t)]
    nv = field.nblocks * field.d
    J = np.zeros((field.dout, nv))
    for v in range(nv):
        J[:, v] = field.diff(v).eval_generic(vals, one=1.0, conv=float)
    return J


def linearize(field, *, fact, ts, m, n, t):
    """Return (H, z): H is (d, n*d), z = g(m) = m[order] - f(m[:order], t) is the predicted residual.

    fact in {dense, isotropic, blockdiag}; ts in {ts0, ts1, residual}; m is the dense mean (n*d,).
    """
    d, order = field.d, field.nblocks
    blocks = [m[j * d : (j + 1) * d] for j in range(order)]
    f = field_eval(field, blocks, t)
    z = m[order * d : (order + 1) * d] - f
    H = np.zeros((d, n * d))
    H[np.arange(d), order * d + np.arange(d)] = 1.0
    if ts == "ts0":
        return H, z
    J = field_jac(field, blocks, t)  # (d, order*d)
    full = H.copy()
    full[:, : order * d] -= J
    if fact == "dense":
        return full, z
    out = np.zeros_like(full)
    if fact == "blockdiag":
        for k in range(d):
            for j in range(n):
                out[k, j * d + k] = full[k, j * d + k]
        return out, z
    # isotropic: trace average over the dimension, times the identity
    for j in range(n):
        tr = sum(full[k, j * d + k] for k in range(d)) / d
        out[np.arange(d), j * d + np.arange(d)] = tr
    return out, z

"""Exact discretisations of the priors' SDEs: rational closed form for the integrated Wiener
process, Van Loan block exponential in multi-precision for linear drifts."""

import math
from fractions import Fraction

import numpy as np


def iwp_exact(nu, h):
    """(Phi, Q) of the nu-times integrated Wiener process over step h (Fraction), unit diffusion."""
    h = Fraction(h)
    n = nu + 1
    Phi = [[(h ** (j - i)) / math.factorial(j - i) if j >= i else Fraction(0) for j in range(n)] for i in range(n)]
    Q = [
        [
            h ** (2 * nu + 1 - i - j) / ((2 * nu + 1 - i - j) * math.factorial(nu - i) * math.factorial(nu - j))
            for j in range(n)
        ]
        for i in range(n)
    ]
    return Phi, Q


def to_float(M):
    return np.asarray([[float(x) for x in row] for row in M], dtype=float)


def iwp_dense(nu, h, lam):
    """Dense (coefficient-major) Phi ⊗ I and Q ⊗ diag(lam^2) as float arrays from the exact rationals."""
    Phi, Q = iwp_exact(nu, h)
    lam = np.asarray(lam, float).reshape(-1)
    d = lam.size
    return np.kron(to_float(Phi), np.eye(d)), np.kron(to_float(Q), np.diag(lam**2))


def van_loan(A, B, h, dps=60):
    """expm(A h) and int_0^h e^{As} B B^T e^{A^T s} ds in multi-precision, returned as float64 arrays."""
    import mpmath as mp

    A = np.asarray(A, float)
    B = np.asarray(B, float)
    n = A.shape[0]
    with mp.workdps(dps):
        hh = mp.mpf(h) if not isinstance(h, Fraction) else mp.mpf(h.numerator) / mp.mpf(h.denominator)
        M = mp.zeros(2 * n, 2 * n)
        BBt = B @ B.T
        for i in range(n):
            for j in range(n):
                M[i, j] = mp.mpf(float(A[i, j])) * hh
                M[i, n + j] = mp.mpf(float(BBt[i, j])) * hh
                M[n + i, n + j] = -mp.mpf(float(A[j, i])) * hh
        # scaling and squaring by hand keeps the Taylor series short and accurate
        norm = max(sum(abs(M[i, j]) for j in range(2 * n)) for i in range(2 * n))
        s = max(0, int(mp.ceil(mp.log(norm + mp.mpf(1), 2))) + 1)
        Ms = M / (mp.mpf(2) ** s)
        E = mp.eye(2 * n)
        term = mp.eye(2 * n)
        for k in range(1, 60):
            term = term * Ms / k
            E = E + term
            if max(abs(term[i, j]) for i in range(2 * n) for j in range(2 * n)) < mp.mpf(10) ** (-dps):
                break
        for _ in range(s):
            E = E * E
        Phi = E[:n, :n]
        G = E[:n, n:] * Phi.T
        Phi_f = np.asarray([[float(Phi[i, j]) for j in range(n)] for i in range(n)])
        G_f = np.asarray([[float(G[i, j]) for j in range(n)] for i in range(n)])
    return Phi_f, 0.5 * (G_f + G_f.T)

"""C01 — adaptive solves meet the tolerance; fixed-step solves converge at order nu+1.

Executions: jitted adaptive solves (save_at, terminal values; save-every-step for the fixed-interval
smoother) and fixed-grid refinement ladders on IVPs with independently known solutions.
"""

import math

import numpy as np

from pdv import configs, util

ID = "C01"
LEVEL = "exploration"
RULE = (
    "adaptive cases = IVP (logistic vector, forced linear system, harmonic oscillator as 2nd-order ODE, Riccati, "
    "Bernoulli, Lotka-Volterra, van der Pol; closed form or DOP853 at 1e-13) x factorisation x calibration x strategy x "
    "TS0/TS1 x nu 1..6; per configuration several solves with tolerance log-uniform in [1e-9,1e-2] (atol=rtol and "
    "atol!=rtol), dt0 log-uniform in [1e-4,1] or from both initialisers, checkpoint layouts (equispaced, random, clustered, "
    "two-point) and final times that leave a tiny remainder after a natural step end (1e-2, 1e-5, 2e-8, 5e-9, 1e-12, 0; clip "
    "on/off). ladder cases = fixed grids h, h/2, h/4, h/8. non-trivial = >=3 accepted steps and an interior checkpoint, or "
    "a ladder with >=2 asymptotic pairs; distinct = (problem, configuration, layout kind)"
)
ASSUMPTIONS = [
    "closed-form solutions / SciPy DOP853 at rtol=atol=1e-13 are the truth",
    "K = 50 in |mean - u| <= K (atol + rtol |u|) for >= 3 Taylor coefficients, 300 for the lowest order (2 coefficients); measured: typically <= 6, outliers 30..107",
    "asymptotic pairs: the finer error lies in [1e-11, 1e-2 |u|] (stated rule; other pairs are dropped)",
]
REQUIRED_OBS = {"adaptive_solves": 60, "checkpoints_judged": 200, "tiny_remainder_solves": 10, "ladders": 6, "asymptotic_pairs": 10}
K = 50.0  # measured on the unchanged tree: typically <= 6, isolated 30..42 (3 coefficients)
K_LOWEST = 300.0  # two coefficients (order-2 method, error-per-step control): measured up to 107
TIMEOUT = {"quick": 2400, "thorough": 3500}

PROBLEMS = ["logistic3", "linear_forced", "harmonic2", "riccati", "bernoulli", "lotka", "vdp", "decay2"]
T_END = {"logistic3": 2.0, "linear_forced": 3.0, "harmonic2": 3.0, "riccati": 1.0, "bernoulli": 2.0, "lotka": 3.0, "vdp": 2.0, "decay2": 9.0}


def cases(tier, seed):
    rng = util.rng_for(ID, tier, seed)
    out = []
    n_ad = 32 if tier == "quick" else 200
    for k in range(n_ad):
        prob = PROBLEMS[k % len(PROBLEMS)]
        strategy = ["filter", "fixedpoint", "fixedinterval"][(k // 8) % 3] if tier == "thorough" else rng.choice(["filter", "fixedpoint", "fixedinterval"])
        out.append(
            {
                "id": f"adaptive-{k}", "kind": "adaptive", "problem": prob, "fact": configs.FACTS[(k // 3) % 3], "cal": rng.choice(configs.CALS),
                "strategy": strategy, "ts": rng.choice(["ts0", "ts1"]), "nu": rng.randint(1, 6), "seedc": rng.randrange(10**9),
                "n_solves": 5 if tier == "quick" else 8, "cost": 40.0,
            }
        )
    n_l = 14 if tier == "quick" else 80
    for k in range(n_l):
        prob = ["logistic3", "linear_forced", "harmonic2", "riccati", "bernoulli"][k % 5]
        out.append(
            {
                "id": f"ladder-{k}", "kind": "ladder", "problem": prob, "fact": configs.FACTS[(k // 5) % 3], "cal": rng.choice(configs.CALS),
                "strategy": ["filter", "fixedinterval"][k % 2], "ts": rng.choice(["ts0", "ts1"]), "nu": rng.randint(1, 5), "cost": 25.0,
            }
        )
    return out


def _cfg(case):
    nu = max(case["nu"], 2 if case["problem"] == "harmonic2" else 1)
    return configs.build(fact=case["fact"], strategy=case["strategy"], cal=case["cal"], ts=case["ts"], nu=nu, problem={"name": case["problem"]}), nu


def _layout(r, t0, T, kind):
    if kind == "two_point":
        return np.asarray([t0, T])
    if kind == "equispaced":
        return np.linspace(t0, T, 6)
    if kind == "random":
        return np.concatenate([[t0], np.sort(t0 + (T - t0) * r.uniform(0.02, 0.98, size=4)), [T]])
    c = t0 + (T - t0) * r.uniform(0.2, 0.8)
    return np.concatenate([[t0], np.sort(c + (T - t0) * 1e-3 * r.uniform(-1, 1, size=4)), [T]])


class _DtTap:
    """Solver proxy that streams every attempted (t, dt) out of jitted code via jax.debug.callback."""

    def __init__(self, inner, sink):
        self._i, self._sink = inner, sink

    def __getattr__(self, k):
        return getattr(self._i, k)

    def step(self, state, dt, damp):
        import jax

        jax.debug.callback(lambda t, h: self._sink.append((float(t), float(h))), state.t, dt)
        return self._i.step(state=state, dt=dt, damp=damp)


def _tiny_step_occurred(cfg, clip, save_at, tol, rtol, dt0):
    """Re-run one solve with the dt tap: did a step 1000x below the typical step size occur under clipping?"""
    import jax
    import jax.numpy as jnp
    from probdiffeq import ivpsolve

    sink = []
    fn = jax.jit(ivpsolve.solve_adaptive_save_at(solver=_DtTap(cfg["solver"], sink), error=cfg["error"], clip_dt=clip, while_loop=configs.bounded_while(20000)))
    sol = fn(cfg["prior"], jnp.asarray(save_at), atol=tol, rtol=rtol, dt0=dt0)
    jax.block_until_ready(sol.t)
    jax.effects_barrier()
    hs = np.asarray([h for _t, h in sink])
    if hs.size < 3:
        return False, int(hs.size)
    # a step (attempt) three orders of magnitude below the run's typical step: the collapse that follows a step
    # clipped to a small remainder (the corrupted state makes the following attempts fail until dt is tiny)
    return bool(np.min(hs) < 1e-3 * np.median(hs)), int(hs.size)


def _diagnose(cfg, prob, clip, save_at, tol, rtol, dt0, k_allowed, strategy):
    """Mechanism tags for a tolerance exceedance of one save_at solve, decided by observation and *intervention*:
    the solve is repeated with a tap on every attempted (t, dt); then

    * clip_forced_short_step: under clipping an attempt that ends exactly at a checkpoint was at least 4x shorter than
      the attempt before it AND the same solve without clipping meets the tolerance (finding D15: the update after a
      forced short prediction amplifies the linearisation residual; amplification grows with the order);
    * small_gap_after_node: (fixed-point smoother) a checkpoint lies less than 2% of its step behind the previous
      interpolation node (the step start or the previous checkpoint) AND the same solve without those checkpoints meets
      the tolerance at all remaining ones (finding D14: the interpolation over a tiny sub-interval is ill-conditioned;
      measured loss at relative gap 1e-2: 6e-13 for 5 coefficients, 9e-5 for 8).
    """
    import jax
    import jax.numpy as jnp
    from probdiffeq import ivpsolve

    out = {"clip_forced_short_step": False, "small_gap_after_node": False}
    wit = {}
    sink = []

    def solve(pts, clip_, solver):
        fn = jax.jit(ivpsolve.solve_adaptive_save_at(solver=solver, error=cfg["error"], clip_dt=clip_, while_loop=configs.bounded_while(20000)))
        sol = fn(cfg["prior"], jnp.asarray(pts), atol=tol, rtol=rtol, dt0=dt0)
        jax.block_until_ready(sol.t)
        jax.effects_barrier()
        return sol

    def ratio_of(sol, pts):
        if not configs.adaptive_reached_end(sol, pts[-1]):
            return float("inf")
        truth = configs.reference_solution(prob, np.asarray(pts))
        return _judge(pts, np.asarray(sol.u.mean[0], float).reshape(len(pts), -1)[:, : prob["d"]], truth, tol, rtol)

    solve(save_at, clip, _DtTap(cfg["solver"], sink))
    att = np.asarray(sink, float).reshape(-1, 2)
    wit["attempts_in_rerun"] = int(len(att))
    if len(att) < 2:
        return out, wit
    ends = att[:, 0] + att[:, 1]
    if clip:
        shortest = 1.0
        for i in range(1, len(att)):
            at_ckpt = np.min(np.abs(ends[i] - np.asarray(save_at))) <= 1e-12 * max(1.0, abs(ends[i]))
            if at_ckpt:
                shortest = min(shortest, att[i, 1] / att[i - 1, 1])
        wit["shortest_clipped_over_previous"] = float(shortest)
        if shortest < 0.25:  # a clipped attempt at least 4x shorter than its predecessor; the control solve below decides
            r_ctrl = ratio_of(solve(save_at, False, cfg["solver"]), save_at)
            wit["ratio_without_clipping"] = r_ctrl
            out["clip_forced_short_step"] = bool(r_ctrl <= k_allowed)
    elif strategy == "fixedpoint":
        # accepted attempts: the next attempt starts where this one ended
        acc = [i for i in range(len(att)) if i == len(att) - 1 or att[i + 1, 0] > att[i, 0]]
        starts, stops = att[acc, 0], ends[acc]
        offenders, worst = [], 1.0
        for j, c in enumerate(save_at[1:-1], start=1):
            k = int(np.searchsorted(stops, c - 1e-8))  # step whose end is the first one >= c (within eps)
            if k >= len(stops) or abs(stops[k] - c) <= 1e-8:
                continue  # at a step end: no interpolation
            a, b = starts[k], stops[k]
            node = max(a, save_at[j - 1])
            rel = (c - node) / (b - a)
            worst = min(worst, rel)
            if rel < 2e-2:
                offenders.append(j)
        wit["min_relative_gap_after_node"] = float(worst)
        if offenders:
            kept = [t for j, t in enumerate(save_at) if j not in offenders]
            r_ctrl = ratio_of(solve(kept, False, cfg["solver"]), kept)
            wit["ratio_without_those_checkpoints"] = r_ctrl
            out["small_gap_after_node"] = bool(r_ctrl <= k_allowed)
    return out, wit


def _judge(times, means, truth, atol, rtol):
    """max over requested times/components of |mean-u| / (atol + rtol|u|)."""
    ratio = np.abs(means - truth) / (atol + rtol * np.abs(truth))
    return float(np.max(ratio)) if np.all(np.isfinite(means)) else float("inf")


def _run_adaptive(case):
    import jax
    import jax.numpy as jnp
    from probdiffeq import ivpsolve
    from probdiffeq.util import test_util

    cfg, nu = _cfg(case)
    prob = cfg["prob"]
    t0, T = prob["t0"], T_END[case["problem"]]
    r = np.random.default_rng(case["seedc"])
    viols, obs, sigs = [], {"cases": 1}, []
    tags = {k: case[k] for k in ("problem", "fact", "cal", "strategy", "ts")}
    tags["ncoeffs"] = nu + 1
    tags["ode_order"] = prob["order"]
    tags["second_order_regime"] = bool(prob["order"] == 2 and (nu + 1 == 3 or case["cal"] == "dynamic"))
    d = prob["d"]
    worst = 0.0

    def check(sol_t, sol_means, atol, rtol, what, extra):
        nonlocal worst
        truth = configs.reference_solution(prob, sol_t)
        ratio = _judge(sol_t, sol_means, truth, atol, rtol)
        worst = max(worst, ratio)
        obs["checkpoints_judged"] = obs.get("checkpoints_judged", 0) + len(sol_t)
        k_allowed = K if nu + 1 >= 3 else K_LOWEST
        if not ratio <= k_allowed:
            viols.append(util.viol("tolerance", f"{what}: |mean - u| reaches {ratio:.3g} x (atol + rtol|u|) (atol={atol:.2g}, rtol={rtol:.2g}); allowed {k_allowed:g}",
                                   tags={**tags, "atol": atol, "rtol": rtol, "loose": bool(max(atol, rtol) >= 1e-4), **extra},
                                   witness={"times": sol_t, "means": sol_means, "truth": truth}))

    if case["strategy"] == "fixedinterval":
        clip_es = bool(r.integers(0, 2))
        solve_es = configs.save_every_step(cfg["solver"], cfg["error"], clip_dt=clip_es)
        for _ in range(max(2, case["n_solves"] // 2)):
            tol = float(10 ** r.uniform(-6 if nu >= 2 else -4, -2))
            rtol = tol * (1.0 if r.random() < 0.5 else float(10 ** r.uniform(-1, 1)))
            dt0 = float(10 ** r.uniform(-4, 0))
            sol = solve_es(cfg["prior"], t0, T, atol=tol, rtol=rtol, dt0=dt0)
            if sol is None:
                obs["budget_hits"] = obs.get("budget_hits", 0) + 1
                continue
            ts_ = np.asarray(sol.t, float)
            check(ts_, np.asarray(sol.u.mean[0], float).reshape(len(ts_), -1)[:, :d], tol, rtol, "save-every-step", {"layout": "every_step", "clip": clip_es, "forced_small_step": False})
            obs["adaptive_solves"] = obs.get("adaptive_solves", 0) + 1
            obs["max_steps"] = max(obs.get("max_steps", 0), len(ts_))
        sigs.append("|".join(str(tags[k]) for k in tags) + "|every_step")
    else:
        natural_ends = None
        for clip in (False, True):
            fn = jax.jit(ivpsolve.solve_adaptive_save_at(solver=cfg["solver"], error=cfg["error"], clip_dt=clip, while_loop=configs.bounded_while(20000)))
            for s_i in range(case["n_solves"]):
                kind = ["two_point", "equispaced", "random", "clustered"][(s_i + (1 if clip else 0)) % 4]
                tol = float(10 ** r.uniform(-9, -2))
                rtol = tol * (1.0 if r.random() < 0.5 else float(10 ** r.uniform(-1, 1)))
                rtol = min(rtol, 1e-2)
                if case["problem"] == "decay2":
                    # |u| falls to 1e-4..1e-6: a relative tolerance orders of magnitude above the absolute one, so that the
                    # two cannot be exchanged unnoticed (seed C01-s3 swapped them inside the rejection loop)
                    rtol = float(10 ** r.uniform(-5, -3))
                    tol = rtol * float(10 ** -r.uniform(3, 6))
                mode = r.integers(0, 3)
                if mode == 0:
                    dt0 = float(10 ** r.uniform(-4, 0))
                elif mode == 1 and prob["order"] == 1:
                    dt0 = float(ivpsolve.dt0(cfg["vf"], tuple(prob["u0"]), t=t0))
                elif prob["order"] == 1:
                    dt0 = float(ivpsolve.dt0_adaptive(cfg["vf"], tuple(prob["u0"]), t0, error_contraction_rate=nu + 1, rtol=rtol, atol=tol))
                else:
                    dt0 = 0.1
                save_at = _layout(r, t0, T, kind)
                sol = fn(cfg["prior"], jnp.asarray(save_at), atol=tol, rtol=rtol, dt0=dt0)
                if not configs.adaptive_reached_end(sol, save_at[-1]):
                    obs["budget_hits"] = obs.get("budget_hits", 0) + 1
                    continue
                small = bool(clip and float(np.min(np.diff(save_at))) < 1e-3 * (T - t0))
                n_before = len(viols)
                check(save_at, np.asarray(sol.u.mean[0], float).reshape(len(save_at), -1)[:, :d], tol, rtol, f"save_at[{kind}] clip={clip}",
                      {"layout": kind, "clip": clip, "forced_small_step": small, "dt0": dt0})
                if len(viols) > n_before:
                    if clip and not small:
                        # an exceedance under clipping: find out whether clipping forced a tiny step in this very run
                        tiny, n_att = _tiny_step_occurred(cfg, clip, save_at, tol, rtol, dt0)
                        viols[-1]["tags"]["forced_small_step"] = bool(tiny)
                    if not viols[-1]["tags"]["forced_small_step"]:
                        dtags, dwit = _diagnose(cfg, prob, clip, [float(x) for x in save_at], tol, rtol, dt0, K if nu + 1 >= 3 else K_LOWEST, case["strategy"])
                        viols[-1]["tags"].update(dtags)
                        viols[-1]["witness"].update(dwit)
                        obs["exceedances_diagnosed_by_intervention"] = obs.get("exceedances_diagnosed_by_intervention", 0) + 1
                obs["adaptive_solves"] = obs.get("adaptive_solves", 0) + 1
                obs["max_steps"] = max(obs.get("max_steps", 0), int(np.asarray(sol.num_steps)[-1]))
                if int(np.asarray(sol.num_steps)[-1]) >= 3 and len(save_at) > 2:
                    sigs.append("|".join(str(tags[k]) for k in tags) + f"|{kind}|c{int(clip)}")
            # tiny remainders: final time = natural step end + delta (save_at has two entries: same compiled function)
            if natural_ends is None and case["strategy"] == "filter":
                tol = float(10 ** r.uniform(-6, -3))
                es = configs.save_every_step(cfg["solver"], cfg["error"], clip_dt=False)(cfg["prior"], t0, T, atol=tol, rtol=tol, dt0=0.05)
                natural_ends = (tol, [float(x) for x in np.asarray(es.t)[1:-1]] if es is not None else [])
            if natural_ends is not None and natural_ends[1]:
                tol, ends = natural_ends
                for delta in (1e-2, 1e-5, 2e-8, 5e-9, 1e-12, 0.0):
                    Tk = ends[int(r.integers(0, len(ends)))] + delta
                    sol = fn(cfg["prior"], jnp.asarray([t0, Tk]), atol=tol, rtol=tol, dt0=0.05)
                    if not configs.adaptive_reached_end(sol, Tk):
                        viols.append(util.viol("tiny_remainder_progress", f"final time = step end + {delta:g}: the run did not reach it within 20000 loop iterations (clip={clip})",
                                               tags={**tags, "delta": delta, "clip": clip, "forced_small_step": bool(clip and 0 < delta <= 1e-3)}))
                        continue
                    check(np.asarray([t0, Tk]), np.asarray(sol.u.mean[0], float).reshape(2, -1)[:, :d], tol, tol, f"tiny remainder {delta:g} clip={clip}", {"layout": "tiny_remainder", "clip": clip, "delta": delta, "forced_small_step": bool(clip and 0 < delta <= 1e-3)})
                    obs["tiny_remainder_solves"] = obs.get("tiny_remainder_solves", 0) + 1
        # terminal-value routine
        tol = float(10 ** r.uniform(-7, -3))
        term = jax.jit(ivpsolve.solve_adaptive_terminal_values(solver=cfg["solver"], error=cfg["error"], while_loop=configs.bounded_while(20000)))(
            cfg["prior"], t0=t0, t1=T, atol=tol, rtol=tol, dt0=0.1)
        check(np.asarray([T]), np.asarray(term.u.mean[0], float).reshape(1, -1)[:, :d], tol, tol, "terminal values", {"layout": "terminal"})
    obs["max_error_over_tolerance"] = worst
    viols = viols[:6]
    if case["fact"] == "isotropic" and case["ts"] == "ts1" and nu + 1 >= 6 and viols:
        # the isotropic model linearises with the trace-averaged Jacobian (documented; C02 checks that this is what the
        # code does). Intervention: the same solve with the exact Jacobian (dense model). If that meets the tolerance, the
        # exceedance is the high-order instability of inexact-Jacobian linearisation (finding D6), seen through this model.
        cfg_d, _ = _cfg({**case, "fact": "dense", "strategy": "filter" if case["strategy"] == "fixedinterval" else case["strategy"]})
        for v in viols:
            if v["suboracle"] != "tolerance" or any(v["tags"].get(k) for k in ("forced_small_step", "clip_forced_short_step", "small_gap_after_node")):
                continue
            tg = v["tags"]
            pts = [float(x) for x in v["witness"]["times"]]
            pts = [t0, pts[-1]] if (len(pts) < 2 or tg.get("layout") == "every_step") else pts
            fn = jax.jit(ivpsolve.solve_adaptive_save_at(solver=cfg_d["solver"], error=cfg_d["error"], clip_dt=bool(tg.get("clip", False)), while_loop=configs.bounded_while(20000)))
            sol = fn(cfg_d["prior"], jnp.asarray(pts), atol=tg["atol"], rtol=tg["rtol"], dt0=float(tg.get("dt0", 0.1)))
            if configs.adaptive_reached_end(sol, pts[-1]):
                truth = configs.reference_solution(prob, np.asarray(pts))
                r_ctrl = _judge(pts, np.asarray(sol.u.mean[0], float).reshape(len(pts), -1)[:, :d], truth, tg["atol"], tg["rtol"])
                v["witness"]["ratio_with_exact_jacobian"] = r_ctrl
                v["tags"]["exact_jacobian_control_ok"] = bool(r_ctrl <= (K if nu + 1 >= 3 else K_LOWEST))
                obs["exceedances_diagnosed_by_intervention"] = obs.get("exceedances_diagnosed_by_intervention", 0) + 1
    sample = {"config": tags, "max_error_over_tolerance": worst, "max_steps": obs.get("max_steps")}
    return {"violations": viols, "obs": obs, "sigs": sorted(set(sigs)), "sample": sample}


def _run_ladder(case):
    import jax
    import jax.numpy as jnp
    from probdiffeq import ivpsolve

    cfg, nu = _cfg(case)
    prob = cfg["prob"]
    t0 = prob["t0"]
    T = 1.0 if case["problem"] != "riccati" else 0.6
    viols, obs = [], {"cases": 1, "ladders": 1}
    tags = {k: case[k] for k in ("problem", "fact", "cal", "strategy", "ts")}
    tags["ncoeffs"] = nu + 1
    tags["ode_order"] = prob["order"]
    tags["second_order_regime"] = bool(prob["order"] == 2 and (nu + 1 == 3 or case["cal"] == "dynamic"))
    errs_end, errs_mid, hs = [], [], []
    n0 = 5 if nu >= 4 else 10
    for level in range(4):
        N = n0 * 2**level
        grid = np.linspace(t0, T, N + 1)
        sol = jax.jit(ivpsolve.solve_fixed_grid(solver=cfg["solver"]))(cfg["prior"], grid=jnp.asarray(grid))
        m = np.asarray(sol.u.mean[0], float).reshape(N + 1, -1)[:, : prob["d"]]
        truth = configs.reference_solution(prob, grid)
        hs.append((T - t0) / N)
        errs_end.append(float(np.max(np.abs(m[-1] - truth[-1]))))
        errs_mid.append(float(np.max(np.abs(m[N // 2] - truth[N // 2]))))
    umag = float(np.max(np.abs(truth)))
    floor = 2e-11 * max(1.0, umag)
    orders = []
    # clean asymptotics (measured: 2.0, 3.0, 4.0, 5.0, 6.0 for nu = 1..5) exist for first-order linearisation and for
    # zeroth-order linearisation with <= 4 coefficients without dynamic calibration; elsewhere (EK0 at high order is
    # stability-limited on coarse grids, dynamic calibration makes the error constant non-smooth in h) the observed order
    # over h in [T/80, T/5] wobbles by about one, so only a loss of more than one order is judged there
    clean = (case["ts"] == "ts1" or nu <= 3) and case["cal"] != "dynamic"
    want = (nu + 1 - 0.75) if clean else (nu - 0.5)
    if case["ts"] == "ts0" and nu + 1 >= 6:
        want = nu - 1.0  # the regime of finding D6: non-monotone, pre-asymptotic error ladders (measured 4.26 at nu = 5)
    obs["ladders_clean_regime"] = int(clean)
    for name, errs in (("final", errs_end), ("interior", errs_mid)):
        # asymptotic levels: error above the rounding floor and below 1e-2 |u|; the observed order is taken over the
        # finest asymptotic range (up to two pairs), which is robust against the non-smooth error constants of
        # dynamic calibration
        lv = [i for i, e in enumerate(errs) if floor <= e <= 1e-2 * umag]
        if len(lv) >= 3:
            # average observed order from level a to the finest asymptotic level, a in {first, second}: the coarsest level
            # may be pre-asymptotic and an accidental sign change of the error at one level distorts single pairs;
            # a method of order p gives ~p on at least one of the two ranges, a method of lower order on neither
            cands = [math.log2(errs[a] / errs[lv[-1]]) / (lv[-1] - a) for a in (lv[0], lv[1], lv[-2]) if lv[-1] > a]
            o = max(cands)
            orders.append((name, lv[0], lv[-1], o))
            obs["min_order_margin"] = min(obs.get("min_order_margin", 99.0), o - want)
            if o < want:
                viols.append(util.viol("convergence_order", f"{name}-time error shrinks like h^{o:.2f} under refinement (levels {lv[0]}..{lv[-1]}), expected at least h^{want:.2f} (errors {errs})",
                                       tags=tags, witness={"h": hs, "errors_final": errs_end, "errors_interior": errs_mid}))
    obs["asymptotic_pairs"] = sum(o[2] - o[1] for o in orders)
    sigs = ["ladder|" + "|".join(str(tags[k]) for k in tags)] if len(orders) >= 2 else []
    sample = {"config": tags, "h": hs, "errors_final": errs_end, "errors_interior": errs_mid, "orders": orders}
    return {"violations": viols, "obs": obs, "sigs": sigs, "sample": sample}


def run_case(case):
    return _run_adaptive(case) if case["kind"] == "adaptive" else _run_ladder(case)

"""C20 — malformed inputs are rejected loudly instead of being broadcast silently (fault enumeration).

A committed table of public entry points x single-field corruptions x factorisations. Every row is
executed: construction followed by first use. Outcome is 'raised' or 'produced numbers'; the valid row
of every entry must produce numbers (otherwise the table, not the repository, is wrong).
"""

import warnings

import numpy as np

from pdv import util

ID = "C20"
LEVEL = "fault_enumeration"
EXHAUSTIVE = True
RULE = (
    "rows = entry point x field x corruption class x factorisation from the table in pdv/props/c20.py (prior "
    "constructors: Taylor-coefficient container, exactness flags, output scale; diffuse priors: std container; "
    "constraint constructors: plain functions / wrong description type; both losses: observation-noise container and "
    "posterior type; residual error estimate with a constraint of different shape; lift orders; exponential prior order; "
    "ensemble size; Taylor routines with plain functions; Jacobian handlers; strategy/routine suitability warnings). The "
    "whole table is run (exhaustive over the table). Every row is a distinct non-trivial case; valid rows are counted too"
)
ASSUMPTIONS = [
    "'first use' = solver.init + one solver.step (eager) for priors/constraints, one evaluation for losses/estimators",
    "the table, not sampling, bounds the coverage",
]
REQUIRED_OBS = {"rows_corrupted": 100, "rows_valid": 15, "warning_rows": 6}
FACTS = ["dense", "isotropic", "blockdiag"]
D, N = 2, 3  # state dimension and number of Taylor coefficients used by the table


# ---- the table --------------------------------------------------------------------------------------


def _table():
    rows = []

    def add(entry, fact, field, corruption):
        rows.append({"id": f"{entry}|{fact}|{field}|{corruption}", "entry": entry, "fact": fact, "field": field, "corruption": corruption})

    for fact in FACTS:
        # priors
        add("prior_iwp", fact, "-", "valid")
        for c in ("array_instead_of_list", "ragged_coefficient", "mixed_leaf_rank", "empty"):
            add("prior_iwp", fact, "tcoeffs", c)
        for c in ("int_flag", "string_flag", "list_wrong_length", "float_entries", "wrong_entry_shape", "int_entries",
                  # shapes that would *broadcast* against the coefficient (the silent-broadcast hazard the property names)
                  "entry_shape_1", "entry_shape_1_d", "entry_shape_d_1"):
            add("prior_iwp", fact, "is_exact", c)
        if fact != "isotropic":
            for c in ("matrix_state_row_flags", "matrix_state_column_flags"):
                add("prior_iwp", fact, "is_exact", c)
        scales = ("shape_1", "shape_d", "list_of_scalar") if fact == "isotropic" else (
            "scalar", "shape_1", "shape_d_1", "shape_1_d", "shape_d_plus_1", "list_wrapped", "dict_wrapped")
        for c in scales:
            add("prior_iwp", fact, "output_scale", c)
        add("prior_diffuse", fact, "-", "valid")
        stds = ("array_leaves", "too_few_coefficients", "list_of_lists") if fact == "isotropic" else (
            "scalar_leaves", "shape_1_leaves", "too_few_coefficients", "ragged_leaf")
        for c in stds:
            add("prior_diffuse", fact, "tcoeffs_std", c)
        # constraints
        add("constraint", fact, "-", "valid")
        for c in ("ts0_plain_function", "ts1_plain_function", "residual_plain_function", "residual_given_ode", "ts0_given_residual"):
            add("constraint", fact, "description", c)
        # losses
        add("loss_terminal", fact, "-", "valid")
        tstd = ("shape_1", "shape_d", "list_wrapped") if fact == "isotropic" else ("scalar", "shape_1", "shape_d_1", "shape_d_plus_1", "list_wrapped")
        for c in tstd:
            add("loss_terminal", fact, "std", c)
        add("loss_timeseries", fact, "-", "valid")
        sstd = ("scalar", "shape_N_1", "shape_N_d", "shape_N_plus_1") if fact == "isotropic" else (
            "scalar", "shape_d", "shape_N", "shape_N_1", "shape_1_d", "shape_N_d_1", "shape_N_plus_1_d")
        for c in sstd:
            add("loss_timeseries", fact, "std", c)
        if fact != "isotropic":
            # states with several pytree leaves: the noise container is checked leaf by leaf, so a container that is wrong in
            # *some* leaves must be rejected as well (seed C20-s4 raised only when every leaf was wrong)
            for ent in ("loss_terminal_pytree", "loss_timeseries_pytree"):
                add(ent, fact, "-", "valid")
                for c in ("one_leaf_wrong_rank", "other_leaf_wrong_rank", "all_leaves_wrong_rank", "one_leaf_wrong_length", "one_leaf_scalar"):
                    add(ent, fact, "std", c)
        add("loss_timeseries", fact, "posterior", "filter_marginals")
        add("loss_timeseries", fact, "posterior", "smoothing_solution_not_extracted")
        # residual error estimate with a jet-lifted (differently shaped) constraint
        add("error_residual", fact, "-", "valid")
        add("error_residual", fact, "constraint", "jet_lifted_by_1")
        add("error_residual", fact, "constraint", "jet_lifted_by_2")
    # factorisation-independent entries
    add("jet_lift", "-", "-", "valid")
    for c in ("negative", "too_large", "float", "bool_like_string"):
        add("jet_lift", "-", "lift_by", c)
    add("prior_exponential", "dense", "-", "valid")
    for c in ("ode_order_too_small", "ode_order_too_large"):
        add("prior_exponential", "dense", "ode", c)
    add("ensembles", "matfree", "-", "valid")
    for c in ("fewer_than_coefficients", "one_member"):
        add("ensembles", "matfree", "num_ensembles", c)
    add("jetexpand", "-", "-", "valid")
    for c in ("padded_scan_plain_function", "unroll_plain_function", "via_jvp_plain_function", "doubling_plain_function", "residual_given_ode"):
        add("jetexpand", "-", "vf", c)
    add("jacobian", "-", "-", "valid")
    for c in ("x_1d", "fx_1d", "d_mismatch", "fx_list"):
        add("jacobian", "-", "input", c)
    for routine, strategy, expect in (
        ("save_at", "fixedinterval", "warn"), ("fixed_grid", "fixedpoint", "warn"), ("save_every_step", "fixedpoint", "warn"),
        ("save_at", "filter", "none"), ("save_at", "fixedpoint", "none"), ("fixed_grid", "filter", "none"),
        ("fixed_grid", "fixedinterval", "none"), ("save_every_step", "fixedinterval", "none"),
        ("terminal_values", "fixedinterval", "none"), ("terminal_values", "fixedpoint", "none"),
    ):
        rows.append({"id": f"warning|{routine}|{strategy}", "entry": "warning", "fact": "dense", "field": routine,
                     "corruption": strategy, "expect": expect})
    return rows


def cases(tier, seed):
    del tier, seed  # the table is fixed: exhaustive on both tiers
    return _table()


# ---- helpers -----------------------------------------------------------------------------------------


def _ssm(fact):
    from probdiffeq import probdiffeq

    return {"dense": probdiffeq.state_space_model_dense, "isotropic": probdiffeq.state_space_model_isotropic,
            "blockdiag": probdiffeq.state_space_model_blockdiag}[fact]()


def _vf():
    import jax.numpy as jnp
    from probdiffeq import probdiffeq

    return probdiffeq.ode(lambda u, *, t: -u + 0.1 * jnp.sin(t) * u**2, jacobian=probdiffeq.jacobian_materialize())


def _tcoeffs():
    import jax.numpy as jnp

    return [jnp.asarray([1.0, 0.5]) * (k + 1) for k in range(N)]


def _first_use(ssm, prior, constraint=None):
    """solver.init + one step; returns numbers."""
    import jax.numpy as jnp
    from probdiffeq import probdiffeq

    cst = constraint if constraint is not None else ssm.constraint_ode_ts0(_vf())
    solver = probdiffeq.solver(strategy=probdiffeq.strategy_filter(), constraint=cst)
    st = solver.init(t=jnp.asarray(0.0), u=prior, damp=0.0)
    st = solver.step(state=st, dt=jnp.asarray(0.1), damp=0.0)
    return np.asarray(st.u.mean_flat), np.asarray(st.u.cholesky_flat)


def _smoothing_solution(ssm):
    import jax.numpy as jnp
    from probdiffeq import ivpsolve, probdiffeq

    prior = ssm.prior_wiener_integrated(_tcoeffs())
    cst = ssm.constraint_ode_ts0(_vf())
    solver = probdiffeq.solver(strategy=probdiffeq.strategy_smoother_fixedinterval(), constraint=cst)
    return ivpsolve.solve_fixed_grid(solver=solver)(prior, grid=jnp.linspace(0.0, 0.4, 5))


def _filter_solution(ssm):
    import jax.numpy as jnp
    from probdiffeq import ivpsolve, probdiffeq

    prior = ssm.prior_wiener_integrated(_tcoeffs())
    cst = ssm.constraint_ode_ts0(_vf())
    solver = probdiffeq.solver(strategy=probdiffeq.strategy_filter(), constraint=cst)
    return ivpsolve.solve_fixed_grid(solver=solver)(prior, grid=jnp.linspace(0.0, 0.4, 5))


def _execute(row):
    """Run one table row; return numbers (np arrays) or raise."""
    import jax
    import jax.numpy as jnp
    from probdiffeq import ivpsolve, probdiffeq

    entry, fact, field, c = row["entry"], row["fact"], row["field"], row["corruption"]
    if entry == "prior_iwp":
        ssm = _ssm(fact)
        tc = _tcoeffs()
        kw = {"is_exact": True, "output_scale": jnp.asarray(2.0) if fact == "isotropic" else jnp.asarray([2.0, 3.0])}
        if field == "tcoeffs":
            tc = {"array_instead_of_list": jnp.stack(tc), "ragged_coefficient": [tc[0], jnp.ones((D + 1,)), tc[2]],
                  "mixed_leaf_rank": [tc[0], tc[1][:, None], tc[2]], "empty": []}[c]
        if field == "is_exact":
            kw["is_exact"] = {
                "int_flag": 1, "string_flag": "yes", "list_wrong_length": [True],
                "float_entries": [jnp.asarray(1.0) if fact == "isotropic" else jnp.ones((D,)) for _ in range(N)],
                "int_entries": [jnp.asarray(1) if fact == "isotropic" else jnp.ones((D,), dtype=int) for _ in range(N)],
                "wrong_entry_shape": [jnp.ones((D + 1,), dtype=bool) for _ in range(N)],
                "entry_shape_1": [jnp.ones((1,), dtype=bool) for _ in range(N)],
                "entry_shape_1_d": [jnp.ones((1, D), dtype=bool) for _ in range(N)],
                "entry_shape_d_1": [jnp.ones((D, 1), dtype=bool) for _ in range(N)],
                "matrix_state_row_flags": [jnp.ones((3,), dtype=bool) for _ in range(N)],
                "matrix_state_column_flags": [jnp.ones((2, 1), dtype=bool) for _ in range(N)],
            }[c]
            if c.startswith("matrix_state"):
                tc = [jnp.ones((2, 3)) * (k + 1.0) for k in range(N)]
                kw.pop("output_scale")
        if field == "output_scale":
            kw["output_scale"] = {
                "scalar": jnp.asarray(2.0), "shape_1": jnp.asarray([2.0]), "shape_d": jnp.asarray([2.0, 3.0]),
                "shape_d_1": jnp.asarray([[2.0], [3.0]]), "shape_1_d": jnp.asarray([[2.0, 3.0]]), "shape_d_plus_1": jnp.ones((D + 1,)),
                "list_wrapped": [jnp.asarray([2.0, 3.0])], "dict_wrapped": {"a": jnp.asarray([2.0, 3.0])},
                "list_of_scalar": [jnp.asarray(2.0)],
            }[c]
        prior = ssm.prior_wiener_integrated(tc, **kw)
        return _first_use(ssm, prior)
    if entry == "prior_diffuse":
        ssm = _ssm(fact)
        tc = _tcoeffs()
        std = [jnp.asarray(0.1) for _ in tc] if fact == "isotropic" else [0.1 * jnp.ones((D,)) for _ in tc]
        if field == "tcoeffs_std":
            std = {
                "array_leaves": [0.1 * jnp.ones((D,)) for _ in tc], "too_few_coefficients": std[:-1], "list_of_lists": [[s] for s in std],
                "scalar_leaves": [jnp.asarray(0.1) for _ in tc], "shape_1_leaves": [jnp.asarray([0.1]) for _ in tc],
                "ragged_leaf": [std[0], 0.1 * jnp.ones((D + 1,)), std[2]] if fact != "isotropic" else None,
            }[c]
        prior = ssm.prior_wiener_integrated_diffuse(tc, std)
        return _first_use(ssm, prior)
    if entry == "constraint":
        ssm = _ssm(fact)
        prior = ssm.prior_wiener_integrated(_tcoeffs())
        vf = _vf()
        plain = lambda u, *, t: -u  # noqa: E731
        res = probdiffeq.residual_velocity(lambda u, du, *, t: du + u, jacobian=probdiffeq.jacobian_materialize())
        cst = {
            "valid": lambda: ssm.constraint_ode_ts1(vf), "ts0_plain_function": lambda: ssm.constraint_ode_ts0(plain),
            "ts1_plain_function": lambda: ssm.constraint_ode_ts1(plain), "residual_plain_function": lambda: ssm.constraint_residual(plain),
            "residual_given_ode": lambda: ssm.constraint_residual(vf), "ts0_given_residual": lambda: ssm.constraint_ode_ts0(res),
        }[c]()
        return _first_use(ssm, prior, cst)
    if entry == "loss_terminal":
        ssm = _ssm(fact)
        sol = _filter_solution(ssm)
        marg = jax.tree.map(lambda s: s[-1], sol.u)
        std = jnp.asarray(0.1) if fact == "isotropic" else jnp.asarray([0.1, 0.2])
        if field == "std":
            std = {"scalar": jnp.asarray(0.1), "shape_1": jnp.asarray([0.1]), "shape_d": jnp.asarray([0.1, 0.2]),
                   "shape_d_1": jnp.asarray([[0.1], [0.2]]), "shape_d_plus_1": 0.1 * jnp.ones((D + 1,)),
                   "list_wrapped": [jnp.asarray(0.1) if fact == "isotropic" else jnp.asarray([0.1, 0.2])]}[c]
        val = probdiffeq.loss_lml_terminal_values()(jnp.asarray([0.7, 0.4]), marginals=marg, std=std)
        return (np.asarray(val),)
    if entry in ("loss_terminal_pytree", "loss_timeseries_pytree"):
        ssm = _ssm(fact)
        u0 = {"x": jnp.asarray([1.0, 0.5]), "v": jnp.asarray([0.3, -0.2, 0.8])}
        ode = probdiffeq.ode(lambda u, *, t: {"x": -u["x"] + 0.1 * jnp.sin(t), "v": -0.5 * u["v"]}, jacobian=probdiffeq.jacobian_materialize())
        tc, _ = probdiffeq.jetexpand_ode_padded_scan(num=2)(ode, (u0,), t=0.0)
        prior = ssm.prior_wiener_integrated(tc)
        cst = ssm.constraint_ode_ts0(ode)
        ts_mode = entry == "loss_timeseries_pytree"
        strat = probdiffeq.strategy_smoother_fixedinterval() if ts_mode else probdiffeq.strategy_filter()
        sol = ivpsolve.solve_fixed_grid(solver=probdiffeq.solver(strategy=strat, constraint=cst))(prior, grid=jnp.linspace(0.0, 0.4, 5))
        T = 5
        lead = (T,) if ts_mode else ()
        std = {"x": 0.1 * jnp.ones((*lead, 2)), "v": 0.2 * jnp.ones((*lead, 3))}
        if field == "std":
            std = {
                "one_leaf_wrong_rank": {"x": 0.1 * jnp.ones((*lead, 2, 1)), "v": std["v"]},
                "other_leaf_wrong_rank": {"x": std["x"], "v": 0.2 * jnp.ones((*lead, 1, 3))},
                "all_leaves_wrong_rank": {"x": 0.1 * jnp.ones((*lead, 2, 1)), "v": 0.2 * jnp.ones((*lead, 3, 1))},
                "one_leaf_wrong_length": {"x": std["x"], "v": 0.2 * jnp.ones((*lead, 4))},
                "one_leaf_scalar": {"x": std["x"], "v": jnp.asarray(0.2)},
            }[c]
        if ts_mode:
            data = {"x": 0.5 * jnp.ones((T, 2)), "v": 0.1 * jnp.ones((T, 3))}
            val = probdiffeq.loss_lml_timeseries()(data, posterior=sol.solution_full.posterior, std=std)
        else:
            marg = jax.tree.map(lambda s_: s_[-1], sol.u)
            val = probdiffeq.loss_lml_terminal_values()({"x": jnp.asarray([0.7, 0.4]), "v": jnp.asarray([0.1, 0.0, 0.3])}, marginals=marg, std=std)
        return (np.asarray(val),)
    if entry == "loss_timeseries":
        ssm = _ssm(fact)
        sol = _smoothing_solution(ssm)
        T = 5
        data = jnp.ones((T, D)) * 0.5
        std = 0.1 * jnp.ones((T,)) if fact == "isotropic" else 0.1 * jnp.ones((T, D))
        post = sol.solution_full.posterior
        if field == "std":
            std = {"scalar": jnp.asarray(0.1), "shape_d": 0.1 * jnp.ones((D,)), "shape_N": 0.1 * jnp.ones((T,)),
                   "shape_N_1": 0.1 * jnp.ones((T, 1)), "shape_1_d": 0.1 * jnp.ones((1, D)), "shape_N_d": 0.1 * jnp.ones((T, D)),
                   "shape_N_d_1": 0.1 * jnp.ones((T, D, 1)), "shape_N_plus_1_d": 0.1 * jnp.ones((T + 1, D)),
                   "shape_N_plus_1": 0.1 * jnp.ones((T + 1,))}[c]
        if field == "posterior":
            post = {"filter_marginals": _filter_solution(ssm).solution_full, "smoothing_solution_not_extracted": sol.solution_full}[c]
        val = probdiffeq.loss_lml_timeseries()(data, posterior=post, std=std)
        return (np.asarray(val),)
    if entry == "error_residual":
        ssm = _ssm(fact)
        prior = ssm.prior_wiener_integrated(_tcoeffs())
        vf = _vf()
        lift = {"valid": 0, "jet_lifted_by_1": 1, "jet_lifted_by_2": 2}[c]
        cst = ssm.constraint_ode_ts0(vf if lift == 0 else vf.jet_lift(lift_by=lift)) if lift < 2 else ssm.constraint_ode_ts0(vf.jet_lift_max(num_tcoeffs=N + 1))
        if lift == 2:
            prior = ssm.prior_wiener_integrated([*_tcoeffs(), _tcoeffs()[0]])
        solver = probdiffeq.solver(strategy=probdiffeq.strategy_filter(), constraint=cst)
        err = probdiffeq.error_residual_std(constraint=cst)
        st0 = solver.init(t=jnp.asarray(0.0), u=prior, damp=0.0)
        st1 = solver.step(state=st0, dt=jnp.asarray(0.1), damp=0.0)
        ep, _ = err.estimate_error_norm(err.init_error(), st0, st1, dt=jnp.asarray(0.1), atol=1e-3, rtol=1e-3, damp=0.0)
        return (np.asarray(ep),)
    if entry == "jet_lift":
        vf = _vf()
        coords = _tcoeffs()  # 3 coefficients for a first-order ODE -> lift_by in {0,1,2}
        lb = {"valid": 2, "negative": -1, "too_large": 3, "float": 1.0, "bool_like_string": "1"}[c]
        out = vf.jet_lift(lift_by=lb).vector_field(jet_coords=coords, t=0.2)
        return tuple(np.asarray(o) for o in out)
    if entry == "prior_exponential":
        ssm = _ssm("dense")
        tc = _tcoeffs()
        nargs = {"valid": N, "ode_order_too_small": N - 1, "ode_order_too_large": N + 1}[c]
        ode = probdiffeq.ode_autonomous_order_arbitrary(lambda *xs: -xs[-1], num_tcoeffs_in_args=nargs)
        prior = ssm.prior_exponential(ode, tc)
        return _first_use(ssm, prior)
    if entry == "ensembles":
        num = {"valid": 7, "fewer_than_coefficients": N - 1, "one_member": 1}[c]
        ssm = probdiffeq.state_space_model_matfree(key=jax.random.PRNGKey(1), num_ensembles=num)
        prior = ssm.prior_wiener_integrated(_tcoeffs())
        vf = _vf()
        cst = ssm.constraint_ode_ts1(vf)
        solver = probdiffeq.solver_dynamic(strategy=probdiffeq.strategy_filter(), constraint=cst)
        st = solver.init(t=jnp.asarray(0.0), u=prior, damp=0.0)
        st = solver.step(state=st, dt=jnp.asarray(0.1), damp=0.0)
        return np.asarray(st.u.mean_flat), np.asarray(st.u.cholesky_flat)
    if entry == "jetexpand":
        plain = lambda u, *, t: -u  # noqa: E731
        u0 = [jnp.asarray([1.0, 0.5])]
        if c == "valid":
            out, _ = probdiffeq.jetexpand_ode_unroll(num=2)(_vf(), u0, t=0.0)
        elif c == "residual_given_ode":
            out, _ = probdiffeq.jetexpand_residual(num=2)(_vf(), u0, t=0.0)
        else:
            alg = {"padded_scan_plain_function": probdiffeq.jetexpand_ode_padded_scan(num=2), "unroll_plain_function": probdiffeq.jetexpand_ode_unroll(num=2),
                   "via_jvp_plain_function": probdiffeq.jetexpand_ode_via_jvp(num=2), "doubling_plain_function": probdiffeq.jetexpand_ode_doubling_unroll(num_doublings=1)}[c]
            out, _ = alg(plain, u0, t=0.0)
        return tuple(np.asarray(o) for o in out)
    if entry == "jacobian":
        h = probdiffeq.jacobian_materialize()
        good = jnp.ones((2, 3))
        fun, x = {"valid": (lambda s: 2 * s, good), "x_1d": (lambda s: s[None], jnp.ones((3,))), "fx_1d": (lambda s: s[0], good),
                  "d_mismatch": (lambda s: s[:, :2], good), "fx_list": (lambda s: [s], good)}[c]
        fx, J, _ = h.calculate_trace_along_d(fun, x, h.init_jacobian_handler())
        return np.asarray(fx), np.asarray(J)
    raise ValueError(entry)


def _warning_row(row):
    from probdiffeq import ivpsolve, probdiffeq
    from probdiffeq.util import test_util

    ssm = _ssm("dense")
    cst = ssm.constraint_ode_ts0(_vf())
    strat = {"filter": probdiffeq.strategy_filter, "fixedpoint": probdiffeq.strategy_smoother_fixedpoint,
             "fixedinterval": probdiffeq.strategy_smoother_fixedinterval}[row["corruption"]]()
    solver = probdiffeq.solver(strategy=strat, constraint=cst)
    err = probdiffeq.error_residual_std(constraint=cst)
    with warnings.catch_warnings(record=True) as caught:
        warnings.simplefilter("always")
        routine = row["field"]
        if routine == "save_at":
            ivpsolve.solve_adaptive_save_at(solver=solver, error=err)
        elif routine == "fixed_grid":
            ivpsolve.solve_fixed_grid(solver=solver)
        elif routine == "save_every_step":
            test_util.solve_adaptive_save_every_step(solver=solver, error=err)
        else:
            ivpsolve.solve_adaptive_terminal_values(solver=solver, error=err)
    msgs = [str(w.message) for w in caught if "Solver" in str(w.message) or "solver" in str(w.message)]
    return msgs


REMEDIES = {
    ("save_at", "fixedinterval"): ("fixed-point", "filter"),
    ("fixed_grid", "fixedpoint"): ("fixed-interval", "filter"),
    ("save_every_step", "fixedpoint"): ("fixed-interval", "filter"),
}


def run_case(row):
    viols, obs = [], {}
    tags = {k: row[k] for k in ("entry", "fact", "field", "corruption")}
    if row["entry"] == "warning":
        msgs = _warning_row(row)
        obs["warning_rows"] = 1
        if row["expect"] == "warn":
            need = REMEDIES[(row["field"], row["corruption"])]
            if not msgs:
                viols.append(util.viol("missing_warning", f"{row['field']} with {row['corruption']} emitted no warning", tags=tags))
            elif not any(all(n.lower().replace("-", "") in m.lower().replace("-", "").replace(" ", "") or n.lower() in m.lower() for n in need[:1]) for m in msgs):
                viols.append(util.viol("warning_without_remedy", f"warning does not name the remedy {need[0]!r}: {msgs}", tags=tags))
        elif msgs:
            viols.append(util.viol("spurious_warning", f"suitable pairing {row['field']}/{row['corruption']} warned: {msgs}", tags=tags))
        return {"violations": viols, "obs": obs, "sigs": [row["id"]], "sample": {"row": row["id"], "warnings": msgs}}
    outcome, detail = "raised", ""
    try:
        with warnings.catch_warnings():
            warnings.simplefilter("ignore")
            nums = _execute(row)
        finite = all(np.all(np.isfinite(np.asarray(x, float))) for x in nums)
        outcome = "numbers" if finite else "non_finite_numbers"
        detail = str([np.asarray(x).shape for x in nums])
    except Exception as exc:  # noqa: BLE001
        detail = f"{type(exc).__name__}: {str(exc)[:160]}"
    if row["corruption"] == "valid":
        obs["rows_valid"] = 1
        if outcome != "numbers":
            raise AssertionError(f"table error: valid row {row['id']} did not produce numbers: {outcome} {detail}")
    else:
        obs["rows_corrupted"] = 1
        obs["rows_rejected"] = int(outcome == "raised")
        if outcome != "raised":
            viols.append(util.viol("malformed_accepted", f"{row['id']}: malformed input produced {outcome} {detail} instead of raising", tags=tags))
    return {"violations": viols, "obs": obs, "sigs": [row["id"]], "sample": {"row": row["id"], "outcome": outcome, "detail": detail}}

"""C18 — initial step-size proposals are positive, finite and follow the heuristics."""

import math

import numpy as np

from pdv import util

ID = "C18"
LEVEL = "exploration"
RULE = (
    "cases = helper (dt0 / dt0_adaptive) x initial value pattern (normal, exactly zero, 1e-300, 1e300, mixed "
    "magnitudes) x vector field (decay, logistic, equilibrium f(u0)=0, constant, stiff linear) x atol/rtol in "
    "[1e-12,1] x contraction rate 1..12 x flat/pytree state; then an adaptive solve started from the proposal. "
    "non-trivial = hostile magnitude or equilibrium or pytree; distinct = (helper, pattern, field, pytree, rate bucket)"
)
ASSUMPTIONS = [
    "independent plain-Python implementation of Hairer-Norsett-Wanner II.4 (book RMS norm and the 2-norm variant of "
    "jax.experimental.ode are both accepted; evidence says which matched)",
]
REQUIRED_OBS = {"proposals_checked": 40, "hnw_compared": 15, "followup_solves": 10}

PATTERNS = ["normal", "zero", "tiny", "huge", "mixed", "partly_zero", "extreme_mix", "negative_dominant"]
FIELDS = ["decay", "logistic", "equilibrium", "constant", "stiff"]


def cases(tier, seed):
    rng = util.rng_for(ID, tier, seed)
    out = []
    reps = 1 if tier == "quick" else 6
    k = 0
    for helper in ("dt0", "dt0_adaptive"):
        for pat in PATTERNS:
            for fld in FIELDS:
                if pat in ("huge", "extreme_mix", "negative_dominant") and fld == "logistic":
                    continue  # u*(1-u) overflows at 1e300: the vector field itself is not finite there
                for _ in range(reps * (3 if pat in ("partly_zero", "extreme_mix", "negative_dominant") else 1)):
                    out.append(
                        {
                            "id": f"{helper}-{pat}-{fld}-{k}", "helper": helper, "pattern": pat, "field": fld,
                            "d": rng.randint(2 if pat in ("partly_zero", "extreme_mix", "negative_dominant") else 1, 4), "pytree": rng.random() < 0.4,
                            "atol": 10 ** rng.uniform(-12, 0), "rtol": 10 ** rng.uniform(-12, 0),
                            "rate": rng.randint(1, 12), "t0": rng.uniform(-1, 1), "seedm": rng.randrange(10**9),
                        }
                    )
                    k += 1
    return out


def _u0(pattern, d, r):
    if pattern == "normal":
        return r.uniform(0.2, 3.0, size=d) * r.choice([-1, 1], size=d)
    if pattern == "zero":
        return np.zeros(d)
    if pattern == "tiny":
        return 1e-300 * r.uniform(1, 9, size=d)
    if pattern == "huge":
        return 1e300 * r.uniform(0.1, 1, size=d)
    if pattern == "partly_zero":
        # some components exactly zero, the others of either sign (norms whose largest entry is negative, zero maxima)
        u = r.uniform(0.2, 3.0, size=d) * r.choice([-1, 1], size=d)
        u[r.permutation(d)[: max(1, d // 2)]] = 0.0
        return u
    if pattern == "negative_dominant":
        # one component dominates in magnitude with a fixed sign, the rest are zero or far smaller with the other sign:
        # signed maxima and magnitudes disagree for the state or for its derivative (seed C18-s3: abs(amax) for amax(abs))
        sgn = float(r.choice([-1, 1]))
        big = float(r.choice([1e300, 1e150, 3.0, 1e-150])) * r.uniform(0.5, 1.0)
        u = -sgn * big * 1e-30 * r.uniform(0, 1, size=d) * (r.random(size=d) < 0.5)
        u[int(r.integers(0, d))] = sgn * big
        return u
    if pattern == "extreme_mix":
        # every component drawn independently from {+-1e300, +-1e-300, +-O(1), 0}
        kinds = r.integers(0, 4, size=d)
        mag = np.where(kinds == 0, 1e300 * r.uniform(0.1, 1, size=d), np.where(kinds == 1, 1e-300 * r.uniform(1, 9, size=d),
                       np.where(kinds == 2, r.uniform(0.5, 2, size=d), 0.0)))
        return mag * r.choice([-1, 1], size=d)
    u = r.uniform(0.5, 2, size=d)
    u[0] *= 1e-12
    if d > 1:
        u[-1] *= 1e9
    return u


def _field(name, d, u0, r):
    """numpy f(u, t) and a jax twin."""
    a = r.uniform(0.5, 2.0, size=d)
    if name == "decay":
        return (lambda u, t: -a * u + 0.1 * np.sin(t)), (lambda u, t, jnp: -jnp.asarray(a) * u + 0.1 * jnp.sin(t))
    if name == "logistic":
        return (lambda u, t: a * u * (1 - u)), (lambda u, t, jnp: jnp.asarray(a) * u * (1 - u))
    if name == "equilibrium":  # f(u0) = 0 exactly
        return (lambda u, t: -a * (u - u0)), (lambda u, t, jnp: -jnp.asarray(a) * (u - jnp.asarray(u0)))
    if name == "constant":
        return (lambda u, t: a + 0.0 * u), (lambda u, t, jnp: jnp.asarray(a) + 0.0 * u)
    lam = np.asarray([1.0] + [1e3] * (d - 1))
    return (lambda u, t: -lam * u + 1.0), (lambda u, t, jnp: -jnp.asarray(lam) * u + 1.0)


def hnw_initial_step(f, t0, y0, order, atol, rtol, variant):
    """Hairer, Norsett, Wanner: Solving ODEs I, Sec. II.4 (starting step size), independent implementation."""
    sc = [atol + abs(y) * rtol for y in y0]

    def norm(x):
        s = math.fsum((xi / si) ** 2 for xi, si in zip(x, sc))
        return math.sqrt(s / len(x)) if variant == "rms" else math.sqrt(s)

    f0 = list(f(np.asarray(y0, float), t0))
    d0, d1 = norm(y0), norm(f0)
    h0 = 1e-6 if (d0 < 1e-5 or d1 < 1e-5) else 0.01 * d0 / d1
    y1 = [y + h0 * g for y, g in zip(y0, f0)]
    f1 = list(f(np.asarray(y1, float), t0 + h0))
    d2 = norm([a - b for a, b in zip(f1, f0)]) / h0
    if max(d1, d2) <= 1e-15:
        h1 = max(1e-6, h0 * 1e-3)
    else:
        h1 = (0.01 / max(d1, d2)) ** (1.0 / (order + 1.0))
    return min(100.0 * h0, h1)


def run_case(case):
    import jax
    import jax.flatten_util
    import jax.numpy as jnp
    from probdiffeq import ivpsolve, probdiffeq

    r = np.random.default_rng(case["seedm"])
    d = case["d"]
    u0 = _u0(case["pattern"], d, r)
    f_np, f_jx = _field(case["field"], d, u0, r)
    viols, obs, sigs = [], {"cases": 1}, []
    tags = {k: case[k] for k in ("helper", "pattern", "field", "pytree")}

    if case["pytree"]:
        tmpl = {"a": jnp.zeros(()), "b": [jnp.zeros((d - 1,))]} if d > 1 else {"a": jnp.zeros((1,))}
        _, unravel = jax.flatten_util.ravel_pytree(tmpl)
        vf = probdiffeq.ode(lambda u, *, t: unravel(f_jx(jax.flatten_util.ravel_pytree(u)[0], t, jnp)))
        u0_in = unravel(jnp.asarray(u0))
    else:
        vf = probdiffeq.ode(lambda u, *, t: f_jx(u, t, jnp))
        u0_in = jnp.asarray(u0)

    t0 = case["t0"]
    if case["helper"] == "dt0":
        h = ivpsolve.dt0(vf, (u0_in,), t=t0)
    else:
        h = ivpsolve.dt0_adaptive(vf, (u0_in,), t0, error_contraction_rate=case["rate"], rtol=case["rtol"], atol=case["atol"])
    h = float(h)
    obs["proposals_checked"] = 1
    if not (math.isfinite(h) and h > 0.0):
        viols.append(util.viol("positive_finite", f"{case['helper']} returned {h!r} for u0={u0.tolist()}", tags=tags,
                               witness={"u0": u0, "f0": f_np(u0, t0)}))
    elif case["helper"] == "dt0_adaptive":
        refs = {v: hnw_initial_step(f_np, t0, [float(x) for x in u0], case["rate"], case["atol"], case["rtol"], v) for v in ("rms", "2norm")}
        errs = {v: abs(h - x) / x for v, x in refs.items()}
        best = min(errs, key=errs.get)
        obs["hnw_compared"] = 1
        obs[f"hnw_matches_{best}"] = int(errs[best] <= 1e-9)
        obs["max_hnw_dev"] = min(errs.values())
        if not errs[best] <= 1e-9:
            viols.append(util.viol("hnw_heuristic", f"dt0_adaptive={h!r} but Hairer-Norsett-Wanner II.4 gives {refs['rms']!r} (RMS norm) / {refs['2norm']!r} (2-norm)",
                                   tags=tags, witness={"u0": u0, "atol": case["atol"], "rtol": case["rtol"], "rate": case["rate"]}))
    # a solve started from the proposal must finish with finite values
    if math.isfinite(h) and h > 0 and case["pattern"] in ("normal", "zero") and case["field"] in ("decay", "equilibrium", "constant"):
        ssm = probdiffeq.state_space_model_isotropic()
        nu = 3
        tc, _ = probdiffeq.jetexpand_ode_padded_scan(num=nu)(vf, (u0_in,), t=t0)
        prior = ssm.prior_wiener_integrated(tc)
        cst = ssm.constraint_ode_ts0(vf)
        solver = probdiffeq.solver_mle(strategy=probdiffeq.strategy_filter(), constraint=cst)
        err = probdiffeq.error_residual_std(constraint=cst)
        tol = 1e-4
        budget = 3000

        def bounded_while(cond, body, init):
            out, _ = jax.lax.while_loop(lambda s: jnp.logical_and(cond(s[0]), s[1] < budget), lambda s: (body(s[0]), s[1] + 1), (init, 0))
            return out

        sol = jax.jit(ivpsolve.solve_adaptive_save_at(solver=solver, error=err, while_loop=bounded_while))(
            prior, jnp.asarray([t0, t0 + 0.5]), atol=tol, rtol=tol, dt0=h)
        if abs(float(np.asarray(sol.t)[-1]) - (t0 + 0.5)) > 1e-8 or int(np.asarray(sol.num_steps)[-1]) >= budget:
            raise util.Inconclusive("follow-up solve hit its logical step budget")
        vals = np.asarray(jax.flatten_util.ravel_pytree(sol.u.mean[0])[0])
        obs["followup_solves"] = 1
        if not np.all(np.isfinite(vals)):
            viols.append(util.viol("followup_solve", f"adaptive solve started from dt0={h!r} produced non-finite values", tags=tags))
        ref = u0 + 0.0
        obs["followup_steps"] = int(np.asarray(sol.num_steps)[-1])
    if case["pattern"] != "normal" or case["field"] == "equilibrium" or case["pytree"]:
        sigs.append(f"{case['helper']}|{case['pattern']}|{case['field']}|p{int(case['pytree'])}|r{case['rate'] // 4}")
    sample = {"helper": case["helper"], "u0": u0, "field": case["field"], "proposal": h}
    return {"violations": viols, "obs": obs, "sigs": sigs, "sample": sample}

"""C02 — the filter posterior equals a textbook extended Kalman filter of the linearised model.

Monitors: (a) per-transition conformance: the 50-digit reference step is restarted from the repo's own
posterior at step k-1 and compared with its posterior at k; (b) end-to-end: an independent reference
recursion from the initial state.
"""

import numpy as np

from pdv import configs, extract, poly, util
from pdv.refmodel import floors as floors_mod
from pdv.refmodel import kalman, mpl

ID = "C02"
LEVEL = "exploration"
RULE = (
    "cases = random polynomial vector field (order 1/2, d<=3, degree<=3, autonomous or not) x random increasing grid "
    "(3..8 steps in [1e-3,1], narrower at nu>=6) x nu in 1..8 x factorisation x calibration (uncalibrated, MLE with/"
    "without correction, dynamic with/without re-linearisation) x {TS0, TS1, residual} x damp in {0,1e-3,1e-1} x prior "
    "{IWP; dense: OU, Matern} x initial state {exact, inexact, diffuse derivatives + initial-constraint update} x base "
    "scale (per dimension for dense/blockdiag). non-trivial = >=3 steps and a vector field that is nonlinear or "
    "time-dependent; distinct = configuration tuples"
)
ASSUMPTIONS = [
    "reference: covariance-form EKF in 50-digit mpmath on the dense embedding with exact IWP transitions (rationals) / "
    "80-digit Van Loan for exponential priors and exact polynomial Jacobians reduced per factorisation",
    "scaled comparison of all Taylor components (DESIGN.md section 2.6)",
]
REQUIRED_OBS = {"transitions_checked": 100, "end_to_end_runs": 20}
TOL_T = 1e-8   # per transition
TOL_E = 1e-6   # end to end (error growth through the nonlinear recursion)
TIMEOUT = {"quick": 1200, "thorough": 3500}


def cases(tier, seed):
    rng = util.rng_for(ID, tier, seed)
    out = []
    n = 96 if tier == "quick" else 900
    for k in range(n):
        fact = configs.FACTS[k % 3]
        order = rng.choice([1, 1, 2])
        d = rng.randint(1, 3)
        hi = 8 if (tier == "thorough" or k % 8 == 0) else 5
        nu = rng.randint(order, hi)
        if (nu + 1) * d > (27 if tier == "thorough" else 15):
            d = max(1, (27 if tier == "thorough" else 15) // (nu + 1))
        field, inits, t0 = poly.random_problem(rng, d=d, nblocks=order, num_coeffs=nu + 1, degree=rng.choice([1, 2, 3]),
                                               nterms=3, time_dep=rng.random() < 0.5)
        prior = "iwp"
        if fact == "dense" and rng.random() < 0.25:
            prior = rng.choice(["ou", "matern"])
        init = rng.choice(["exact", "exact", "inexact", "diffuse"])
        hmax = 1.0 if nu < 6 else 0.2
        nsteps = rng.randint(3, 8)
        steps = [configs.loguniform(rng, 1e-3 if nu < 6 else 1e-2, hmax) for _ in range(nsteps)]
        tot = sum(steps)
        if tot > 1.5:
            steps = [s * 1.5 / tot for s in steps]
        cal = rng.choice(["solver", "mle", "dynamic"])
        base = None
        if rng.random() < 0.6:
            base = [configs.loguniform(rng, 1e-2, 1e2) for _ in range(d)] if fact != "isotropic" else [configs.loguniform(rng, 1e-2, 1e2)]
        out.append(
            {
                "id": f"c02-{k}", "fact": fact, "cal": cal, "ts": rng.choice(["ts0", "ts1", "residual"]), "nu": nu,
                "relin": rng.random() < 0.5, "correct": rng.random() < 0.7, "damp": rng.choice([0.0, 0.0, 1e-3, 1e-1]),
                "prior": prior, "init": init, "base": base, "steps": steps,
                "field": field.to_json(),
                "inits": [[str(x) for x in blk] for blk in inits],
                "t0": str(t0),
                "cost": ((nu + 1) * d) ** 2 / 30.0 + 3,
            }
        )
    return out


def _sigma_vec(sig, d):
    if sig is None:
        return None
    if isinstance(sig, np.ndarray):
        return mpl.F(sig)
    return np.full((d,), float(sig))


def _mean_dev(m, m_ref, Pdiag, noise, tol):
    """max_i |dm_i| / (tol*(|m_i| + sqrt(P_ii)) + noise_i): <= 1 means within the rounding-aware tolerance."""
    m, m_ref = np.asarray(m, float), np.asarray(m_ref, float)
    if not np.all(np.isfinite(m)):
        return float("inf")
    # absolute floor: a coefficient that is exactly 0 with variance exactly 0 (exact initial data) differs from a
    # reference value of 3e-17 only by the rounding of the other coefficients it was computed from
    den = tol * (np.abs(m_ref) + np.sqrt(np.maximum(Pdiag, 0.0))) + np.asarray(noise, float) + 2.0**-46 * float(np.max(np.abs(m_ref)) if m_ref.size else 0.0) + 1e-300
    return float(np.max(np.abs(m - m_ref) / den))


def _cov_dev(P, P_ref, floor):
    """max |dP_ij| / (s_i s_j) with s = max(sqrt(P_ref_ii), floor): exactly observed coefficients have reference variance
    ~0 and repo variance ~1e-34 (rounding), which must not be divided by itself."""
    P, P_ref = np.asarray(P, float), np.asarray(P_ref, float)
    if not np.all(np.isfinite(P)):
        return float("inf")
    sd = np.maximum(np.sqrt(np.maximum(np.diag(P_ref), 0.0)), floor)
    den = np.outer(sd, sd)
    return float(np.max(np.abs(P - P_ref) / np.where(den > 0, den, 1.0)))


def _divide_scale(P, s, n, d):
    v = np.tile(np.asarray(s, float).reshape(-1) if np.ndim(s) else np.full((d,), float(s)), n)
    return P / np.outer(v, v)


def run_case(case):
    import jax
    import jax.numpy as jnp
    from probdiffeq import ivpsolve

    fact, cal, nu = case["fact"], case["cal"], case["nu"]
    problem = {"name": "poly", "field": case["field"], "inits": case["inits"], "t0": case["t0"]}
    diffuse = 0
    cinit = False
    if case["init"] == "diffuse":
        order = len(case["inits"])
        diffuse = nu + 1 - order
        cinit = diffuse > 0
    cfg = configs.build(
        fact=fact, strategy="filter", cal=cal, ts=case["ts"], nu=nu, problem=problem, base_scale=case["base"],
        init="inexact" if case["init"] == "inexact" else "exact", inexact_eps=1e-3, diffuse=diffuse,
        constraint_init=cinit, relinearize=case["relin"], correct_underconfidence=case["correct"], prior=case["prior"],
    )
    field, d, n = cfg["prob"]["field"], cfg["d"], nu + 1
    t0 = cfg["prob"]["t0"]
    grid = np.concatenate([[t0], t0 + np.cumsum(case["steps"])])
    solve = jax.jit(ivpsolve.solve_fixed_grid(solver=cfg["solver"]))
    sol = solve(cfg["prior"], grid=jnp.asarray(grid), damp=case["damp"])
    T = len(grid)
    viols, obs, sigs = [], {"cases": 1}, []
    tags = {k: case[k] for k in ("fact", "cal", "ts", "prior", "init", "damp", "relin")}
    tags["nu"] = nu

    means, covs, roots = [], [], []
    for k in range(T):
        m, L = extract.normal_sqrt_dense(extract.tree_index(sol.u, k))
        means.append(m)
        roots.append(L)
        covs.append(L @ L.T)
    if max(float(np.nanmax(np.abs(np.where(np.isfinite(m), m, 1e300)))) for m in means) > 1e4:
        # the polynomial problem blows up on this grid (u' ~ u^3 with steps up to 1): numbers of size 1e14..1e120
        # next to damp^2 = 1e-2 cannot be represented in float64 by any implementation -> not judged
        return {"violations": [], "obs": {"cases": 1, "exploded_skipped": 1}, "sigs": []}
    if not all(np.all(np.isfinite(m)) and np.all(np.isfinite(P)) for m, P in zip(means, covs)):
        viols.append(util.viol("finite", "non-finite filter output", tags=tags))
        return {"violations": viols, "obs": obs, "sigs": sigs}
    scale = np.asarray(sol.output_scale, float)  # (T,) or (T, d); some solvers omit the entry for t0
    if scale.shape[0] == T - 1:
        scale = np.concatenate([scale[:1], scale])
    base = case["base"]
    drift = configs.drift_of(case["prior"], n, d) if case["prior"] != "iwp" else None
    ts_ref = "ts1" if case["ts"] in ("ts1", "residual") else "ts0"
    model = kalman.Model(field=field, fact=fact, ts=ts_ref, nu=nu, d=d, base=base if base is None else np.asarray(base),
                         damp=case["damp"], prior=case["prior"], drift=drift)
    tol_t = TOL_T * (1.0 if nu <= 5 else 10.0)
    tol_e = TOL_E * (1.0 if nu <= 5 else 100.0)

    # ---- unit-scale posteriors of the repo run ---------------------------------------------------------
    if cal == "mle":
        unit = [_divide_scale(covs[k], scale[k], n, d) for k in range(T)]
    else:
        unit = covs

    # ---- (a) per-transition conformance ----------------------------------------------------------------
    # Tolerances are rounding-aware: the residual z = x[order] - f(x) is a difference of O(1) terms, so its
    # float64 value carries noise dz (bounded in the reference step); that noise moves the mean by |K| dz and
    # the local scale estimates by their relative sensitivity. These bounds are added to tau, never replaced.
    worst_t = 0.0
    for k in range(1, T):
        # the covariance the reference starts from is formed from the repo's square-root factor in 50 digits
        # (forming L L^T in float64 would destroy nearly singular directions)
        Lm = mpl.M(roots[k - 1])
        if cal == "mle":
            sv_ = np.tile(np.asarray(scale[k - 1], float).reshape(-1) if np.ndim(scale[k - 1]) else np.full((d,), float(scale[k - 1])), n)
            Lm = Lm / mpl.M(sv_)[:, None]
        st = kalman.step(model, mpl.M(means[k - 1]), mpl.mm(Lm, Lm.T), grid[k - 1], grid[k] - grid[k - 1], cal=cal,
                         relinearize=case["relin"])
        m_ref, P_ref = mpl.F(st["m"]), mpl.F(st["P"])
        rel = 0.0
        if cal == "dynamic":
            s_ref = _sigma_vec(st["sigma"], d)
            s_noise = np.broadcast_to(np.asarray(st["sigma_noise"], float), (d,))
            rel = float(np.max(s_noise / np.maximum(s_ref, 1e-300)))
        em = _mean_dev(means[k], m_ref, np.diag(P_ref), st["mean_noise"], tol_t + rel)
        # the update P - K S K^T carries rounding of size eps * predicted variance: an exactly observed coefficient has
        # reference variance 0 and repo variance ~eps * P_pred_ii -> floor the denominators at 1e-7 * predicted std
        fl = 1e-7 * np.sqrt(np.maximum(np.diag(mpl.F(st["P_pred"])), 0.0))
        ec = _cov_dev(unit[k], P_ref, fl) / (1.0 + 3 * rel / tol_t)
        if rel > 0.05:
            obs["scale_noise_dominated"] = 1
            ec = 0.0
        worst_t = max(worst_t, em * tol_t, ec)
        obs["transitions_checked"] = obs.get("transitions_checked", 0) + 1
        if not em <= 1.0:
            viols.append(util.viol("transition_mean", f"step {k}: posterior mean deviates from the EKF step by {em:.3g} x tolerance", tags=tags,
                                   witness={"k": k, "t": grid[k], "got": means[k], "ref": m_ref, "noise_bound": st["mean_noise"]}))
            break
        if not ec <= tol_t:
            viols.append(util.viol("transition_cov", f"step {k}: posterior covariance deviates from the EKF step by {ec:.3g} (scaled)", tags=tags,
                                   witness={"k": k, "t": grid[k], "got_diag": np.diag(unit[k]), "ref_diag": np.diag(P_ref), "rel_scale_noise": rel}))
            break
        if cal == "dynamic":
            s_got = np.full((d,), scale[k]) if scale.ndim == 1 else scale[k]
            es = float(np.max(np.abs(s_got - s_ref) / (tol_t * np.abs(s_ref) + s_noise + 1e-300)))
            if not es <= 1.0:
                viols.append(util.viol("dynamic_scale", f"step {k}: dynamic output scale {s_got} vs reference {s_ref} (rounding bound {s_noise})", tags=tags))
                break
    obs["max_transition_dev"] = worst_t

    # ---- (b) end to end -------------------------------------------------------------------------------------
    m0, P0 = extract.normal_dense(cfg["prior"].init)
    ref, final = kalman.filter_run(model, mpl.M(m0), mpl.M(P0), list(grid), cal=cal, relinearize=case["relin"],
                                   constraint_init=cinit, correct=case["correct"])
    # rounding noise carried by the means (|K| dz per step, propagated with the entrywise amplification bound) also reaches
    # every later residual and with it the scale estimates: sigma_prop[k] bounds that second-order path
    noise_hist = [np.zeros(n * d)]
    sigma_prop = [None]
    for st in ref[1:]:
        dzp = st["dz_dm"] @ (3 * noise_hist[-1])
        if cal in ("mle", "dynamic") and np.any(dzp > 0):
            sigma_prop.append(kalman.rms_sensitivity(st["z"], st["S_cal"], dzp, fact=fact, d=d))
        else:
            sigma_prop.append(0.0)
        noise_hist.append(st["amplification"] @ noise_hist[-1] + st["mean_noise"])
    noise_acc = np.zeros(n * d)
    rel_dyn = 0.0
    rel_mle = 0.0
    if cal == "mle":
        sq = np.zeros((d,))
        for st, sp in zip(ref[1:], sigma_prop[1:]):
            sq = sq + (np.broadcast_to(np.asarray(st["sigma_noise"], float), (d,)) + np.broadcast_to(np.asarray(sp, float), (d,))) ** 2
        N = len(ref) - 1
        s_noise_total = np.sqrt(sq / N) / (np.sqrt(N) if case["correct"] else 1.0)
        s_fin = _sigma_vec(final, d)
        rel_mle = float(np.max(s_noise_total / np.maximum(s_fin, 1e-300)))
    worst_e = 0.0
    for k in range(T):
        P_ref = ref[k]["P"]
        if k >= 1:
            noise_acc = ref[k]["amplification"] @ noise_acc + ref[k]["mean_noise"]
            if cal == "dynamic":
                sr = _sigma_vec(ref[k]["sigma"], d)
                sn = np.broadcast_to(np.asarray(ref[k]["sigma_noise"], float), (d,)) + np.broadcast_to(np.asarray(sigma_prop[k], float), (d,))
                rel_dyn = max(rel_dyn, float(np.max(sn / np.maximum(sr, 1e-300))))
        if cal == "mle":
            P_ref = kalman.scale_cov(P_ref, final, n, d)
        m_ref, P_ref = mpl.F(ref[k]["m"]), mpl.F(P_ref)
        em = _mean_dev(means[k], m_ref, np.diag(P_ref), 3 * noise_acc, tol_e + rel_dyn)
        Ppred = ref[k]["P_pred"] if k >= 1 else ref[0]["P"]
        if cal == "mle" and k >= 1:
            Ppred = kalman.scale_cov(Ppred, final, n, d)
        fl = 1e-7 * np.sqrt(np.maximum(np.diag(mpl.F(Ppred)), 0.0))
        ec = _cov_dev(covs[k], P_ref, fl) / (1.0 + 3 * (rel_mle + rel_dyn) / tol_e)
        if rel_mle + rel_dyn > 0.05:
            # the calibrated scale itself is rounding noise (tiny residuals at high order / small steps): the
            # calibrated covariance cannot be compared; the unit-scale covariance is judged per transition above
            obs["scale_noise_dominated"] = 1
            ec = 0.0
        worst_e = max(worst_e, em * tol_e, ec)
        if not (em <= 1.0 and ec <= tol_e):
            viols.append(util.viol("end_to_end", f"time index {k}: mean deviates by {em:.3g} x tolerance, covariance by {ec:.3g} (scaled) from the independent EKF recursion",
                                   tags=tags, witness={"k": k, "got": means[k], "ref": m_ref, "got_std": np.sqrt(np.diag(covs[k])), "ref_std": np.sqrt(np.maximum(np.diag(P_ref), 0)), "rel_mle": rel_mle, "rel_dyn": rel_dyn}))
            break
    obs["end_to_end_runs"] = 1
    obs["max_end_to_end_dev"] = worst_e
    if cal == "mle":
        s_ref = _sigma_vec(final, d)
        for k in range(T):
            s_got = np.full((d,), scale[k]) if scale.ndim == 1 else scale[k]
            es = float(np.max(np.abs(s_got - s_ref) / (tol_e * np.abs(s_ref) + s_noise_total + 1e-300)))
            if not es <= 1.0:
                viols.append(util.viol("mle_scale", f"returned output scale {s_got} (index {k}) vs quasi-MLE {s_ref} ({es:.3g} x tolerance; rounding bound {s_noise_total})", tags=tags))
                break
        obs["max_mle_scale_dev_x_tol"] = es
    elif cal == "solver":
        if not np.all(scale == 1.0):
            viols.append(util.viol("uncalibrated_scale", f"uncalibrated solver reports output scale {scale}", tags=tags))
    if T >= 4 and (field.is_nonlinear or field.depends_on_t):
        sigs.append("|".join(str(tags[k]) for k in ("fact", "cal", "ts", "prior", "init", "damp", "relin", "nu")) + f"|o{field.nblocks}|d{d}")
    sample = {"config": tags, "field": field.describe(), "grid": grid, "max_transition_dev": worst_t, "max_end_to_end_dev": worst_e,
              "final_mean": means[-1][:d], "output_scale_last": scale[-1]}
    return {"violations": viols, "obs": obs, "sigs": sigs, "sample": sample}

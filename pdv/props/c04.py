"""C04 — output-scale calibration is the documented estimator and is scale-equivariant.

(a) value: the reported scale is recomputed from the recorded accepted steps with the 50-digit reference
    (quasi-MLE incl. the 1/sqrt(N) correction and the initial-constraint datum; per-step local estimate in
    dynamic mode; exactly one when uncalibrated) and returned covariances = unit covariances x scale^2;
(b) equivariance (metamorphic): the same run with the prior's base scale multiplied by c.
"""

import numpy as np

from pdv import configs, extract, poly, record, util
from pdv.props import c03
from pdv.refmodel import floors as floors_mod
from pdv.refmodel import kalman, mpl

ID = "C04"
LEVEL = "exploration"
RULE = (
    "cases = random polynomial IVP x factorisation x calibration x strategy x TS0/TS1 x nu; kind 'value': adaptive run "
    "behind recording proxies (checkpoints incl. step ends) and fixed-grid runs, scale recomputed from the recorded "
    "steps; kind 'equivariance': base scale x c with c = 2^k (k in [-20,20]: values, calibrated covariances and the full "
    "accept/reject trace must agree to 1e-12, scale divides by exactly c) and non-dyadic c in [1e-6,1e6] (1e-8; trace "
    "clause skipped and counted when an attempt has |error_power-1|<1e-6). Exact initial state, no damping (precondition). "
    "non-trivial = >=3 accepted steps (value) / >=1 rejection in the trace (adaptive equivariance); distinct = config tuples"
)
ASSUMPTIONS = [
    "reference estimator from pdv/refmodel/kalman.py on the recorded unit-scale filtering marginals",
    "scale equivariance is only claimed for exact initial states without damping (otherwise the model itself is not equivariant)",
]
REQUIRED_OBS = {"scale_values_checked": 6, "equivariance_pairs": 20, "dyadic_trace_pairs": 4, "covariance_scalings_checked": 2}
TIMEOUT = {"quick": 1500, "thorough": 3500}


def cases(tier, seed):
    rng = util.rng_for(ID, tier, seed)
    out = []
    n = 40 if tier == "quick" else 320
    for k in range(n):
        kind = ["value", "equiv_fixed", "equiv_adaptive", "equiv_fixed"][k % 4]
        d = rng.randint(1, 3 if kind != "equiv_adaptive" else 2)
        nu = rng.randint(1, 4)
        # every fourth 'value' case is a small-residual regime (high order, tight tolerance / small steps): raw residuals of
        # 1e-8..1e-12, where absolute thresholds and "safe" fallbacks in a scale estimate would show (seed C14-s2)
        small = kind == "value" and (k // 4) % 2 == 1
        if small:
            nu = rng.randint(4, 5)
        field, inits, t0 = poly.random_problem(rng, d=d, nblocks=1, num_coeffs=nu + 1, degree=2, nterms=2, time_dep=rng.random() < 0.5)
        dyadic = rng.random() < 0.6
        # planned option combinations for the estimator checks (each needs a particular strategy x calibration x flag):
        # e.g. "covariance = unit covariance x scale^2" is checkable for the filter, and the 1/sqrt(N) flag matters for MLE only
        vplan = [("filter", "mle", False), ("fixedpoint", "dynamic", True), ("filter", "solver", True), ("fixedpoint", "mle", False),
                 ("filter", "dynamic", True), ("filter", "mle", True), ("fixedpoint", "mle", True), ("fixedpoint", "solver", True)]
        planned = vplan[((k // 8) + seed) % len(vplan)] if (kind == "value" and not small) else None
        out.append(
            {
                "id": f"{kind}-{k}", "kind": kind,
                "fact": configs.FACTS[(k // 8) % 3] if small else configs.FACTS[(k // 4) % 3],
                "cal": ["mle", "dynamic"][(k // 24) % 2 if tier == "thorough" else rng.randrange(2)] if small else (planned[1] if planned else (configs.CALS[(k // 12) % 3] if tier == "thorough" else rng.choice(configs.CALS))),
                "ts": rng.choice(["ts0", "ts1"]), "nu": nu,
                "strategy": planned[0] if planned else (rng.choice(["filter", "fixedpoint"]) if kind in ("value", "equiv_adaptive") else rng.choice(["filter", "fixedinterval"])),
                "c": float(2.0 ** rng.randint(-20, 20)) if dyadic else float(10 ** rng.uniform(-6, 6)), "dyadic": dyadic,
                "base": float(10 ** rng.uniform(-1, 1)), "correct": planned[2] if planned else rng.random() < 0.7, "cinit": kind == "value" and rng.random() < 0.3,
                "relin": rng.random() < 0.5,
                "tol": 10 ** rng.uniform(-9, -7) if small else 10 ** rng.uniform(-5, -2), "small_residuals": small, "dt0": 10 ** rng.uniform(-2, -0.5), "T": rng.uniform(0.3, 0.8),
                "steps": [configs.loguniform(rng, 0.02, 0.2) for _ in range(rng.randint(3, 7))],
                "field": field.to_json(), "inits": [[str(x) for x in b] for b in inits], "t0": str(t0),
                "seedc": rng.randrange(10**9), "cost": 12.0 if kind != "equiv_fixed" else 4.0,
            }
        )
    return out


def _cfg(case, base, strategy=None, cinit=False, tc_ulp_seed=None):
    problem = {"name": "poly", "field": case["field"], "inits": case["inits"], "t0": case["t0"]}
    nu = case["nu"]
    diffuse = 0
    if cinit:
        diffuse = nu  # only u0 is given; derivatives diffuse, fixed by the initial-constraint update
    return configs.build(fact=case["fact"], strategy=strategy or case["strategy"], cal=case["cal"], ts=case["ts"], nu=nu, problem=problem,
                         base_scale=base, correct_underconfidence=case["correct"], relinearize=case["relin"], diffuse=diffuse,
                         constraint_init=cinit, tc_ulp_seed=tc_ulp_seed)


def _record(cfg, save_at, case, clip=False):
    import jax
    import jax.numpy as jnp
    from probdiffeq import ivpsolve

    log = record.Log()
    rec = record.RecSolver(log, cfg["solver"], keep_states=True)
    solve = ivpsolve.solve_adaptive_save_at(solver=rec, error=record.RecError(log, cfg["error"]), clip_dt=clip,
                                            while_loop=record.make_while(log, max_iter=300))
    with jax.disable_jit():
        sol = solve(cfg["prior"], jnp.asarray(save_at), atol=case["tol"], rtol=case["tol"], dt0=case["dt0"])
    states = c03._accepted_states(log, rec)
    attempts = [(e["from_t"], e["dt"], log.events[i + 1]["ep"]) for i, e in enumerate(log.events) if e["ev"] == "step" and log.events[i + 1]["ev"] == "error"]
    return sol, states, attempts


def _sigma_np(sig, d):
    if isinstance(sig, np.ndarray):
        return mpl.F(sig)
    return np.full((d,), float(sig))


def _run_value(case):
    fact, cal, nu = case["fact"], case["cal"], case["nu"]
    base = case["base"]
    cfg = _cfg(case, base, cinit=case["cinit"])
    d, n = cfg["d"], nu + 1
    t0 = cfg["prob"]["t0"]
    T1 = t0 + case["T"]
    viols, obs = [], {"cases": 1}
    tags = {k: case[k] for k in ("fact", "cal", "ts", "strategy", "cinit", "correct")}
    try:
        _, st0, _ = _record(cfg, [t0, T1], case)
        ends = [float(s.t) for s in st0[1:] if float(s.t) < T1 - 1e-6]
        r = np.random.default_rng(case["seedc"])
        pts = sorted({t0, T1} | set(ends[:: max(1, len(ends) // 3)]) | {t0 + case["T"] * float(u) for u in r.uniform(0.1, 0.9, size=2)})
        sol, states, attempts = _record(cfg, pts, case)
    except record.BudgetExceeded:
        return {"violations": [], "obs": {"cases": 1, "budget_hits": 1}, "sigs": []}
    if float(np.nanmax(np.abs(np.nan_to_num(np.asarray(sol.u.mean_flat), nan=1e300)))) > 1e4 or len(states) < 3:
        return {"violations": [], "obs": {"cases": 1, "exploded_or_short_skipped": 1}, "sigs": []}
    model = kalman.Model(field=cfg["prob"]["field"], fact=fact, ts=case["ts"], nu=nu, d=d, base=base, damp=0.0)
    scale = np.asarray(sol.output_scale, float)
    if scale.shape[0] == len(pts) - 1:
        scale = np.concatenate([scale[:1], scale])
    N = len(states) - 1
    obs["accepted_steps"] = N
    if cal == "solver":
        obs["scale_values_checked"] = 1
        if not np.all(scale == 1.0):
            viols.append(util.viol("uncalibrated_scale_is_one", f"uncalibrated run reports output scale {scale.tolist()}", tags=tags))
    else:
        terms, noises = [], []
        for k in range(1, N + 1):
            m_prev, P_prev = c03._mp_marginal(states[k - 1].u)
            st = kalman.step(model, m_prev, P_prev, float(states[k - 1].t), float(states[k].t) - float(states[k - 1].t), cal=cal, relinearize=case["relin"])
            terms.append(_sigma_np(st["sigma"], d))
            noises.append(np.broadcast_to(np.asarray(st["sigma_noise"], float), (d,)))
            if cal == "dynamic":
                got = np.broadcast_to(np.asarray(states[k].output_scale, float), (d,))
                e = float(np.max(np.abs(got - terms[-1]) / (1e-8 * np.abs(terms[-1]) + noises[-1] + 1e-300)))
                obs["max_dynamic_scale_dev_x_tol"] = max(obs.get("max_dynamic_scale_dev_x_tol", 0.0), e)
                if not e <= 1.0:
                    viols.append(util.viol("dynamic_scale_value", f"step {k}: dynamic scale {got.tolist()} vs local estimate {terms[-1].tolist()}", tags=tags))
                    break
        obs["scale_values_checked"] = 1
        if cal == "mle":
            sq = sum(t_**2 for t_ in terms)
            ndata = N
            if case["cinit"]:
                m0, P0 = extract.normal_mp(cfg["prior"].init, d)
                _, _, s0 = kalman.init_update(model, m0, mpl.mm(P0, P0.T), t0, cal="mle")
                sq = sq + _sigma_np(s0, d) ** 2
                ndata = N + 1
            ref = np.sqrt(sq / ndata)
            nsteps_last = int(np.asarray(sol.num_steps)[-1])
            if case["correct"]:
                ref = ref / np.sqrt(nsteps_last)
            noise = np.sqrt(sum(x**2 for x in noises) / ndata) / (np.sqrt(nsteps_last) if case["correct"] else 1.0)
            got = np.broadcast_to(scale[-1], (d,)) if scale.ndim > 1 else np.full((d,), scale[-1])
            e = float(np.max(np.abs(got - ref) / (1e-8 * np.abs(ref) + noise + 1e-300)))
            obs["max_mle_scale_dev_x_tol"] = e
            if not e <= 1.0:
                viols.append(util.viol("mle_scale_value", f"reported output scale {got.tolist()} but the quasi-MLE over the {ndata} recorded data is {ref.tolist()} "
                                                          f"(correction={'on' if case['correct'] else 'off'}, N={nsteps_last})", tags=tags))
            if np.ptp(scale, axis=0).max() > 0:
                viols.append(util.viol("mle_scale_constant", "MLE scale differs between output times", tags=tags))
        else:
            # dynamic: reported scale at a checkpoint = scale of the covering step
            for j, t in enumerate(pts[1:], start=1):
                k = next(kk for kk in range(1, N + 1) if float(states[kk].t) >= t - 1e-8)
                want = np.broadcast_to(np.asarray(states[k].output_scale, float), (d,))
                got = np.broadcast_to(scale[j], (d,))
                if util.rel_err(got, want, floor=1e-300) > 1e-12:
                    viols.append(util.viol("dynamic_scale_at_checkpoint", f"checkpoint {t}: reported {got.tolist()}, covering step has {want.tolist()}", tags=tags))
                    break
    # covariance = unit covariance x scale^2 at checkpoints that are step ends (filter only)
    if case["strategy"] == "filter" and cal in ("mle", "solver"):
        for j, t in enumerate(pts):
            k = next((kk for kk, s in enumerate(states) if abs(float(s.t) - t) <= 1e-8), None)
            if k is None:
                continue
            _, Lu = extract.normal_sqrt_dense(states[k].u)
            _, Lr = extract.normal_sqrt_dense(extract.tree_index(sol.u, j))
            sv = np.tile(np.broadcast_to(scale[j], (d,)) if scale.ndim > 1 else np.full((d,), scale[j]), n)
            want = (Lu * sv[:, None]) @ (Lu * sv[:, None]).T
            e = util.scaled_cov_err(Lr @ Lr.T, want, std_floor_rel=1e-9)
            obs["covariance_scalings_checked"] = obs.get("covariance_scalings_checked", 0) + 1
            if e > 1e-10:
                viols.append(util.viol("covariance_is_unit_times_scale_squared", f"t={t}: returned covariance is not unit covariance x scale^2 ({e:.3g})", tags=tags))
                break
    # every strategy: the MLE solver takes the same steps as the uncalibrated one (its error estimate is calibrated locally),
    # and its returned covariances are the uncalibrated ones times the *reported* scale squared (seed C04-s4: the 1/sqrt(N)
    # option was honoured for the reported scale but not for the covariances)
    if cal == "mle" and not viols and not case["cinit"]:
        try:
            sol_u, _states_u, attempts_u = _record(_cfg({**case, "cal": "solver"}, base), pts, case)
        except record.BudgetExceeded:
            sol_u = None
        if sol_u is not None and len(attempts_u) == len(attempts) and all(abs(x[1] - y[1]) <= 1e-12 * abs(x[1]) for x, y in zip(attempts, attempts_u)):
            fl = floors_mod.floors_for_grid(nu, d, pts, scale=base * float(np.max(scale)))
            for j in range(len(pts)):
                _, Pu = extract.normal_dense(extract.tree_index(sol_u.u, j))
                _, Pm = extract.normal_dense(extract.tree_index(sol.u, j))
                sv = np.tile(np.broadcast_to(scale[j], (d,)) if scale.ndim > 1 else np.full((d,), scale[j]), n)
                want = Pu * sv[:, None] * sv[None, :]
                sd = np.sqrt(np.maximum(np.diag(want), 0.0))
                if j > 0:
                    sd = np.maximum(sd, fl[j])
                den = np.outer(sd, sd)
                e = float(np.max(np.abs(Pm - want) / np.where(den > 0, den, 1.0)))
                obs["mle_vs_uncalibrated_covariances"] = obs.get("mle_vs_uncalibrated_covariances", 0) + 1
                obs["max_mle_vs_uncalibrated_dev"] = max(obs.get("max_mle_vs_uncalibrated_dev", 0.0), e)
                if e > 1e-8:
                    viols.append(util.viol("covariance_is_unit_times_scale_squared", f"t={pts[j]}: covariance of the MLE solve is not the uncalibrated covariance x reported scale^2 ({e:.3g})",
                                           tags={**tags, "via": "uncalibrated_run"}))
                    break
    sigs = ["|".join(str(case[k]) for k in ("fact", "cal", "ts", "strategy", "nu", "cinit", "correct"))] if N >= 3 else []
    return {"violations": viols, "obs": obs, "sigs": sigs,
            "sample": {"config": tags, "accepted_steps": N, "scale_last": scale[-1], "mle_dev_x_tol": obs.get("max_mle_scale_dev_x_tol")}}


def _compare_runs(a, b, c, cal, d, n, tol, tags, viols, obs, what, times, base, check_scale=True):
    """a: base run, b: run with base x c. Each: (means [T,N], covs [T,N,N], scales [T,(d)])."""
    ma, Pa, sa = a
    mb, Pb, sb = b
    eff = base * (float(np.max(sa[1:])) if cal != "solver" and len(sa) > 1 else 1.0)
    fl = floors_mod.floors_for_grid(n - 1, d, times, scale=eff)
    for i in range(len(ma)):
        sd = np.sqrt(np.maximum(np.diag(Pa[i]), 0.0))
        if i > 0:
            sd = np.maximum(sd, fl[i])
        em = float(np.max(np.abs(mb[i] - ma[i]) / (np.abs(ma[i]) + sd + 1e-300)))
        fac = c**2 if cal == "solver" else 1.0
        den = np.outer(sd, sd)
        ec = float(np.max(np.abs(Pb[i] / fac - Pa[i]) / np.where(den > 0, den, 1.0)))
        obs["max_equiv_dev_" + what] = max(obs.get("max_equiv_dev_" + what, 0.0), em, ec)
        if not (em <= tol and ec <= tol):
            viols.append(util.viol("scale_equivariance_values", f"{what}: base scale x {c:g}: means/{'std/c' if cal == 'solver' else 'calibrated cov'} differ by {em:.3g}/{ec:.3g} at index {i}", tags=tags))
            return
    if not check_scale:
        return
    if cal == "solver":
        if not (np.all(sa == 1.0) and np.all(sb == 1.0)):
            viols.append(util.viol("scale_equivariance_scale", f"{what}: uncalibrated scale not one", tags=tags))
    else:
        lo = 1 if cal == "dynamic" else 0  # index 0 of the dynamic scale is the placeholder one of the initial state
        e = util.rel_err(sb[lo:] * c, sa[lo:], floor=1e-300)
        obs["max_equiv_scale_dev_" + what] = max(obs.get("max_equiv_scale_dev_" + what, 0.0), e)
        if not e <= tol:
            viols.append(util.viol("scale_equivariance_scale", f"{what}: estimated scale does not divide by c={c:g} (rel {e:.3g})", tags=tags))


def _compare_with_measured_conditioning(e1, e2, c, cal, d, n, tol, tags, viols, obs, what, times, base, rerun):
    """Non-dyadic factors change every rounding. If the tight tolerance fails, the base run is repeated with the base
    scale moved by one unit roundoff (``rerun(factor)``): the change between those two runs of the *same* model is the
    rounding amplification of this solve, and the tolerance becomes tol + util.COND_FACTOR x that change."""
    tv, to = [], {}
    _compare_runs(e1, e2, c, cal, d, n, tol, tags, tv, to, what, times, base)
    if tv and tv[0]["suboracle"] in ("scale_equivariance_values", "scale_equivariance_scale"):
        u = 1.0 + 2.0**-52
        e3 = rerun(u)
        if e3 is not None:
            pv, po = [], {}
            _compare_runs(e1, e3, u, cal, d, n, float("inf"), tags, pv, po, what, times, base)
            sens = max([v for k, v in po.items() if k.startswith("max_equiv")] + [0.0])
            obs["conditioning_measured"] = obs.get("conditioning_measured", 0) + 1
            obs["max_measured_sensitivity"] = max(obs.get("max_measured_sensitivity", 0.0), sens)
            tol = tol + util.COND_FACTOR * sens
    _compare_runs(e1, e2, c, cal, d, n, tol, tags, viols, obs, what, times, base)


def _extract_filtering(sol, T):
    """The filtering marginals that smoothing solutions carry next to the smoothed ones (used by off-grid evaluation):
    they are returned covariances too and must be calibrated and scale-equivariant like ``sol.u`` (seed C04-s3)."""
    full = sol.solution_full
    if not hasattr(full, "filtering"):
        return None
    ms, Ps = [], []
    for i in range(T):
        m, P = extract.normal_dense(extract.tree_index(full.filtering, i))
        ms.append(m)
        Ps.append(P)
    sc = np.asarray(sol.output_scale, float)
    if sc.shape[0] == T - 1:
        sc = np.concatenate([sc[:1], sc])
    return ms, Ps, sc


def _extract(sol, T):
    ms, Ps = [], []
    for i in range(T):
        m, P = extract.normal_dense(extract.tree_index(sol.u, i))
        ms.append(m)
        Ps.append(P)
    sc = np.asarray(sol.output_scale, float)
    if sc.shape[0] == T - 1:
        sc = np.concatenate([sc[:1], sc])
    return ms, Ps, sc


def _run_equiv(case):
    import jax
    import jax.numpy as jnp
    from probdiffeq import ivpsolve

    cal, nu, c = case["cal"], case["nu"], case["c"]
    viols, obs = [], {"cases": 1}
    tags = {k: case[k] for k in ("fact", "cal", "ts", "strategy", "dyadic")}
    tol = 1e-12 if case["dyadic"] else 1e-7  # a non-dyadic factor changes every rounding: measured <= 2.3e-8
    cfg1, cfg2 = _cfg(case, case["base"]), _cfg(case, case["base"] * c)
    d, n = cfg1["d"], nu + 1
    t0 = cfg1["prob"]["t0"]
    if case["kind"] == "equiv_fixed":
        grid = np.concatenate([[t0], t0 + np.cumsum(case["steps"])])
        s1 = jax.jit(ivpsolve.solve_fixed_grid(solver=cfg1["solver"]))(cfg1["prior"], grid=jnp.asarray(grid))
        s2 = jax.jit(ivpsolve.solve_fixed_grid(solver=cfg2["solver"]))(cfg2["prior"], grid=jnp.asarray(grid))
        if float(np.nanmax(np.abs(np.nan_to_num(np.asarray(s1.u.mean_flat), nan=1e300)))) > 1e4:
            return {"violations": [], "obs": {"cases": 1, "exploded_or_short_skipped": 1}, "sigs": []}
        def rerun_fixed(factor):
            cf = _cfg(case, case["base"] * factor, tc_ulp_seed=case["seedc"])
            return _extract(jax.jit(ivpsolve.solve_fixed_grid(solver=cf["solver"]))(cf["prior"], grid=jnp.asarray(grid)), len(grid))

        cmp = _compare_runs if case["dyadic"] else (lambda *a: _compare_with_measured_conditioning(*a, rerun_fixed))
        cmp(_extract(s1, len(grid)), _extract(s2, len(grid)), c, cal, d, n, tol, tags, viols, obs, "fixed_grid", grid, case["base"])
        f1, f2 = _extract_filtering(s1, len(grid)), _extract_filtering(s2, len(grid))
        if f1 is not None and not viols:
            _compare_runs(f1, f2, c, cal, d, n, 1e-12 if case["dyadic"] else 1e-6, {**tags, "output": "filtering"}, viols, obs, "fixed_grid_filtering", grid, case["base"])
            obs["filtering_outputs_compared"] = 1
            if case["strategy"] == "fixedinterval" and case["dyadic"]:
                # dense output between the grid points
                mids = [float(0.3 * a + 0.7 * b) for a, b in zip(grid[:-1], grid[1:])][:3]
                o1 = [extract.normal_dense(cfg1["solver"].offgrid_marginals(jnp.asarray(t), solution=s1)) for t in mids]
                o2 = [extract.normal_dense(cfg2["solver"].offgrid_marginals(jnp.asarray(t), solution=s2)) for t in mids]
                sc1 = np.asarray(s1.output_scale, float)
                i1, i2 = extract.normal_dense(extract.tree_index(s1.u, 0)), extract.normal_dense(extract.tree_index(s2.u, 0))
                og1 = ([i1[0]] + [m for m, _ in o1], [i1[1]] + [P for _, P in o1], sc1[: len(mids) + 1])
                og2 = ([i2[0]] + [m for m, _ in o2], [i2[1]] + [P for _, P in o2], np.asarray(s2.output_scale, float)[: len(mids) + 1])
                _compare_runs(og1, og2, c, "solver" if cal == "solver" else "offgrid", d, n, 1e-10, {**tags, "output": "offgrid"}, viols, obs,
                              "fixed_grid_offgrid", [grid[0]] + mids, case["base"], check_scale=False)
                obs["offgrid_outputs_compared"] = 1
        obs["equivariance_pairs"] = 1
        sigs = ["|".join(str(case[k]) for k in ("kind", "fact", "cal", "ts", "strategy", "nu", "dyadic"))]
    else:
        T1 = t0 + case["T"]
        r = np.random.default_rng(case["seedc"])
        pts = sorted({t0, T1} | {t0 + case["T"] * float(u) for u in r.uniform(0.1, 0.9, size=3)})
        try:
            s1, st1, at1 = _record(cfg1, pts, case)
            s2, st2, at2 = _record(cfg2, pts, case)
        except record.BudgetExceeded:
            return {"violations": [], "obs": {"cases": 1, "budget_hits": 1}, "sigs": []}
        if float(np.nanmax(np.abs(np.nan_to_num(np.asarray(s1.u.mean_flat), nan=1e300)))) > 1e4:
            return {"violations": [], "obs": {"cases": 1, "exploded_or_short_skipped": 1}, "sigs": []}
        borderline = any(abs(ep - 1.0) < 1e-6 for _, _, ep in at1)
        if case["dyadic"] or not borderline:
            same = len(at1) == len(at2) and all(
                abs(x[0] - y[0]) <= tol * max(1.0, abs(x[0])) and abs(x[1] - y[1]) <= tol * abs(x[1]) and (x[2] >= 1.0) == (y[2] >= 1.0)
                for x, y in zip(at1, at2))
            obs["dyadic_trace_pairs" if case["dyadic"] else "nondyadic_trace_pairs"] = 1
            if not same:
                k = next((i for i, (x, y) in enumerate(zip(at1, at2)) if not (abs(x[1] - y[1]) <= tol * abs(x[1]) and (x[2] >= 1.0) == (y[2] >= 1.0))), min(len(at1), len(at2)))
                viols.append(util.viol("scale_equivariance_trace", f"accept/reject trace changes under base scale x {c:g} (first difference at attempt {k}: "
                                                                   f"{at1[k] if k < len(at1) else None} vs {at2[k] if k < len(at2) else None})", tags=tags))
        else:
            obs["trace_clause_skipped_borderline"] = 1
        if not viols:
            def rerun_adaptive(factor):
                try:
                    s3, _st3, at3 = _record(_cfg(case, case["base"] * factor, tc_ulp_seed=case["seedc"]), pts, case)
                except record.BudgetExceeded:
                    return None
                if len(at3) != len(at1):
                    return None  # a different step sequence measures something else
                return _extract(s3, len(pts))

            cmp = _compare_runs if case["dyadic"] else (lambda *a: _compare_with_measured_conditioning(*a, rerun_adaptive))
            cmp(_extract(s1, len(pts)), _extract(s2, len(pts)), c, cal, d, n, tol if case["dyadic"] else 1e-7, tags, viols, obs, "adaptive", pts, case["base"])
        obs["equivariance_pairs"] = 1
        obs["rejections_in_trace"] = sum(1 for _, _, ep in at1 if ep < 1.0)
        sigs = ["|".join(str(case[k]) for k in ("kind", "fact", "cal", "ts", "strategy", "nu", "dyadic"))] if obs["rejections_in_trace"] >= 1 else []
    return {"violations": viols, "obs": obs, "sigs": sigs, "sample": {"config": tags, "c": c, "deviations": {k: v for k, v in obs.items() if k.startswith("max_")}}}


def run_case(case):
    return _run_value(case) if case["kind"] == "value" else _run_equiv(case)

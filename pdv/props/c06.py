"""C06 — adaptive step control is safe for every accept/reject history (trace property).

The real RejectionLoop / solve_adaptive_save_at / controllers are driven (a) by scripted solver and
error-estimator components that realise arbitrary accept/reject histories and (b) by real solvers
behind recording proxies; the event log is checked offline against the trace specification R1-R7.
"""

import math

import numpy as np

from pdv import record, util
from pdv.refmodel import stepctl

ID = "C06"
LEVEL = "exploration"
RULE = (
    "scripted histories: random piecewise-constant admissible step profile h_adm(t) (incl. hostile profiles with a "
    "deep drop right after a large accepted step), error_power=(h_adm/dt)^gamma, integral / PI controllers with random "
    "admissible parameters, clip on/off, eps in {1e-8,1e-6,1e-3}, dt0 from 2^-10 to 4, checkpoints placed (two-pass) "
    "exactly at, within eps of, 2*eps after and inside recorded step ends; real runs: a covering sample of solver "
    "configurations behind recording proxies. A history is non-trivial when it contains >=1 rejection and >=1 "
    "interpolation; distinct = (controller, clip, eps, #rejections bucket, #interp_fwd>0, #interp_at>0, layout kinds)"
)
ASSUMPTIONS = [
    "jax.disable_jit() makes lax control flow execute as Python control flow in program order (trusted JAX)",
    "the scripted solver mimics the bookkeeping contract of real solvers (num_steps+1 per step; interpolation "
    "takes num_steps from the right end)",
]
REQUIRED_OBS = {"histories_completed": 100, "attempts": 500, "rejected": 50, "interp_fwd": 20, "interp_at": 10, "clipped_attempts": 5,
                "rejection_then_smaller": 50}
TIMEOUT = {"quick": 900, "thorough": 3400}


def cases(tier, seed):
    rng = util.rng_for(ID, tier, seed)
    out = []
    n_hist = 1200 if tier == "quick" else 30000
    per = 40 if tier == "quick" else 250
    for b in range(n_hist // per):
        out.append({"id": f"scripted-{b}", "kind": "scripted", "n": per, "seedh": rng.randrange(10**9), "cost": per * 0.05})
    n_real = 12 if tier == "quick" else 120
    facts = ["dense", "isotropic", "blockdiag"]
    strategies = ["filter", "fixedpoint"]
    cals = ["solver", "mle", "dynamic"]
    for k in range(n_real):
        out.append(
            {
                "id": f"real-{k}", "kind": "real", "fact": facts[k % 3], "strategy": strategies[(k // 3) % 2],
                "cal": cals[(k // 6) % 3 if tier == "thorough" else rng.randrange(3)], "ts": rng.choice(["ts0", "ts1"]),
                "nu": rng.randint(1, 4), "ctrl": rng.choice(["i", "pi"]), "clip": rng.random() < 0.5,
                "tol": 10 ** rng.uniform(-6, -2), "dt0": 2.0 ** rng.randint(-8, 1), "seedh": rng.randrange(10**9),
                "cost": 8.0,
            }
        )
    return out


def _controller(rng, kind):
    from probdiffeq import ivpsolve

    p = dict(safety=rng.uniform(0.55, 0.99), factor_min=rng.uniform(0.05, 0.9), factor_max=rng.uniform(1.1, 20.0))
    if kind == "pi":
        # mostly sensible gains; a few extreme ones (tiny integral gain: legitimate runs that crawl)
        ki = rng.uniform(0.0, 1.0) if rng.random() < 0.1 else rng.uniform(0.25, 1.0)
        p.update(exponent_integral=ki, exponent_proportional=rng.uniform(0.0, 1.0))
        return ivpsolve.control_proportional_integral(**p), p
    return ivpsolve.control_integral(**p), p


def _profile(rng, T, hostile):
    """Piecewise-constant admissible step size; every region needs between ~2 and ~100 steps."""
    nb = rng.randint(1, 5)
    bps = sorted(rng.uniform(0, T) for _ in range(nb))
    vals = [T * 2.0 ** rng.uniform(-7, -1) for _ in range(nb + 1)]
    if hostile:
        # a deep, short drop right after a generous region, then recovery to almost the same level
        j = rng.randrange(nb)
        vals[j] = T * 2.0 ** rng.uniform(-3, -1)
        low = vals[j] * 2.0 ** rng.uniform(-9, -4)
        vals[j + 1] = low
        width = low * rng.uniform(2, 40)
        if j + 1 < nb:
            bps[j + 1 :] = [max(b, bps[j] + width) for b in bps[j + 1 :]]
            bps[j + 1] = bps[j] + width
            bps.sort()
            vals[j + 2] = vals[j] * rng.uniform(0.9, 1.1)
        else:
            bps.append(bps[j] + width)
            vals.append(vals[j] * rng.uniform(0.9, 1.1))

    def hadm(t):
        return vals[sum(t >= b for b in bps)]

    return hadm, {"breaks": bps, "values": vals}


def _run_scripted(rng, idx):
    import jax
    import jax.numpy as jnp
    from probdiffeq import ivpsolve

    T = rng.choice([1.0, 4.0, 10.0])
    ckind = rng.choice(["i", "pi"])
    ctrl, params = _controller(rng, ckind)
    clip = rng.random() < 0.5
    eps = rng.choice([1e-8, 1e-8, 1e-6, 1e-3])
    gamma = rng.uniform(0.5, 2.0) if rng.random() < 0.9 else rng.uniform(0.2, 0.5)
    hostile = rng.random() < 0.4
    hadm0, prof = _profile(rng, T, hostile)
    dt0 = 2.0 ** rng.randint(-10, 2)
    # time offset: comparisons that are (by mistake) relative to |t| behave differently far from zero (seed C06-s3:
    # a hidden rtol=1e-5 in the "did the step end at the checkpoint" test is invisible for t ~ 1)
    off = rng.choice([0.0, 0.0, 0.0, 37.0, 1000.0])

    def hadm(t):
        return hadm0(t - off)

    def run(save_at):
        log = record.Log()
        solve = ivpsolve.solve_adaptive_save_at(
            solver=record.ScriptedSolver(log), error=record.ScriptedError(log, hadm, gamma),
            control=record.RecControl(log, ctrl), clip_dt=clip, while_loop=record.make_while(log, max_iter=4000),
        )
        try:
            with jax.disable_jit():
                sol = solve(None, jnp.asarray(save_at), atol=1e-3, rtol=1e-3, dt0=dt0, eps=eps)
        except record.BudgetExceeded:
            sol = None
        return log, sol

    # pass 1: natural step ends
    log1, sol1 = run([off, off + T])
    desc0 = {"hist": idx, "T": T, "controller": ckind, "params": params, "clip": clip, "eps": eps, "gamma": gamma,
             "hostile": hostile, "profile": prof, "dt0": dt0, "offset": off}
    if sol1 is None:
        return _budget_verdict(log1, {**desc0, "save_at": [off, off + T], "layout": []})
    ends = sorted({e["new_t"] for i, e in enumerate(log1.events) if e["ev"] == "step"
                   and log1.events[i + 1]["ev"] == "error" and log1.events[i + 1]["ep"] >= 1.0 and e["new_t"] < off + T})
    pts, kinds = {off, off + T}, set()
    for _ in range(rng.randint(0, 6)):
        kind = rng.choice(["at", "near", "after", "just_before", "inside", "random", "pair"]) if ends else "random"
        if kind == "random":
            pts.add(off + rng.uniform(0, T))
        else:
            e0 = rng.choice(ends)
            if kind == "at":
                pts.add(e0)
            elif kind == "near":
                pts.add(e0 + rng.choice([-1, 1]) * eps * rng.uniform(0.1, 0.9))
            elif kind == "after":
                pts.add(e0 + 2 * eps)
            elif kind == "just_before":
                # the step overshoots the checkpoint by a little more than eps: it must be interpolated back, not "reached"
                pts.add(e0 - rng.choice([1.5 * eps, 3 * eps, 30 * eps, eps + 3e-6 * max(1.0, abs(e0)), eps + 1e-7 * max(1.0, abs(e0))]))
            elif kind == "inside":
                j = ends.index(e0)
                lo = ends[j - 1] if j > 0 else off
                for _ in range(3):
                    pts.add(rng.uniform(lo, e0))
            else:
                x = off + rng.uniform(0, T)
                pts.add(x)
                pts.add(x + eps * rng.uniform(0.1, 0.9))
        kinds.add(kind)
    save_at = sorted(p for p in pts if off <= p <= off + T)
    log, sol = run(save_at)
    if sol is None:
        return _budget_verdict(log, {**desc0, "save_at": save_at, "layout": sorted(kinds)})
    V, C = stepctl.check_trace(
        log.events, save_at=save_at, eps=eps, clip=clip, fmin=params["factor_min"], fmax=params["factor_max"], dt0=dt0,
        result_t=[float(x) for x in np.asarray(sol.t)], result_steps=[int(x) for x in np.asarray(sol.num_steps)],
    )
    desc = {"hist": idx, "T": T, "controller": ckind, "params": params, "clip": clip, "eps": eps, "gamma": gamma,
            "hostile": hostile, "profile": prof, "dt0": dt0, "save_at": save_at, "layout": sorted(kinds), "offset": off}
    # third pass (every third history): the terminal-value routine with the same components and the caller's eps; the final
    # time sits at / within eps of / just beyond a natural step end (seed C06-s4: the routine dropped the caller's eps)
    if ends and idx % 3 == 0 and not V:
        e0 = rng.choice(ends)
        t1 = e0 + rng.choice([0.0, 1.0, -1.0, 1.0, -1.0]) * eps * rng.uniform(0.1, 0.9) if rng.random() < 0.7 else e0 + rng.choice([-3.0, 3.0]) * eps
        if t1 > off + 4 * eps:
            log_t = record.Log()
            solve_t = ivpsolve.solve_adaptive_terminal_values(
                solver=record.ScriptedSolver(log_t), error=record.ScriptedError(log_t, hadm, gamma),
                control=record.RecControl(log_t, ctrl), clip_dt=clip, while_loop=record.make_while(log_t, max_iter=4000))
            try:
                with jax.disable_jit():
                    sol_t = solve_t(None, t0=jnp.asarray(off), t1=jnp.asarray(t1), atol=1e-3, rtol=1e-3, dt0=dt0, eps=eps)
            except record.BudgetExceeded:
                sol_t = None
            if sol_t is not None:
                Vt, Ct = stepctl.check_trace(
                    log_t.events, save_at=[off, float(t1)], eps=eps, clip=clip, fmin=params["factor_min"], fmax=params["factor_max"], dt0=dt0,
                    result_t=[off, float(np.asarray(sol_t.t))], result_steps=[0, int(np.asarray(sol_t.num_steps))])
                C["terminal_value_runs"] = 1
                if Vt:
                    V = [(rule, "terminal-value routine: " + msg, i) for rule, msg, i in Vt]
                    desc = {**desc, "save_at": [off, float(t1)], "layout": ["terminal"], "routine": "terminal_values"}
                    return V, C, desc, log_t
    return V, C, desc, log


def _budget_verdict(log, desc):
    """Loop budget exhausted: the safety rules are still checked on the partial trace. Slow-but-legitimate
    runs (e.g. a PI controller whose gains make accepted steps shrink) are *inconclusive*, not violations;
    a loop that iterates without attempting a step or reporting a checkpoint is a livelock (R8)."""
    p = desc["params"]
    V, C = stepctl.check_trace(log.events, save_at=desc["save_at"], eps=desc["eps"], clip=desc["clip"],
                               fmin=p["factor_min"], fmax=p["factor_max"], dt0=desc["dt0"], result_t=None,
                               result_steps=None, partial=True)
    C["budget_hits"] = 1
    tail = log.events[-300:]
    if not any(e["ev"] in ("step", "interp") for e in tail):
        V.append(("R8", "loop iterates without attempting a step or reporting a checkpoint (livelock)", len(log.events) - 1))
    return V, C, desc, log


def _bucket(n):
    return 0 if n == 0 else (1 if n < 5 else (2 if n < 25 else 3))


def run_case(case):
    if case["kind"] == "scripted":
        rng = util.rng_for(ID, "hist", case["seedh"])
        viols, obs, sigs = [], {}, set()
        sample = None
        for idx in range(case["n"]):
            V, C, desc, log = _run_scripted(rng, idx)
            for k, v in C.items():
                if k.startswith("max_"):
                    obs[k] = max(obs.get(k, 0), v)
                else:
                    obs[k] = obs.get(k, 0) + v
            obs["histories"] = obs.get("histories", 0) + 1
            obs["histories_completed"] = obs.get("histories_completed", 0) + int(not C.get("budget_hits"))
            if C["rejected"] >= 1 and (C["interp_fwd"] + C["interp_at"]) >= 1:
                sigs.add(f"{desc['controller']}|c{int(desc['clip'])}|e{desc['eps']}|r{_bucket(C['rejected'])}|"
                         f"f{int(C['interp_fwd'] > 0)}|a{int(C['interp_at'] > 0)}|{'-'.join(desc['layout'])}|h{int(desc['hostile'])}")
            for rule, msg, i in V[:3]:
                viols.append(util.viol(rule, msg, tags={"kind": "scripted", "controller": desc["controller"], "clip": desc["clip"]},
                                       witness={"history": desc, "events_around": log.events[max(0, i - 6): i + 3]}))
            if sample is None and C["rejected"] >= 2 and C["interp_fwd"] >= 1:
                sample = {"history": {k: desc[k] for k in ("controller", "clip", "eps", "dt0", "save_at", "layout")},
                          "counters": C, "first_events": log.events[:12]}
        return {"violations": viols[:10], "obs": obs, "sigs": sorted(sigs), "sample": sample}
    return _run_real(case)


def _run_real(case):
    import jax
    import jax.numpy as jnp
    from probdiffeq import ivpsolve

    from pdv import configs

    rng = util.rng_for(ID, "real", case["seedh"])
    ctrl, params = _controller(rng, case["ctrl"])
    cfg = configs.build(
        fact=case["fact"], strategy=case["strategy"], cal=case["cal"], ts=case["ts"], nu=case["nu"],
        problem={"name": "logistic3"},
    )
    eps = 1e-8
    log = record.Log()
    solver = record.RecSolver(log, cfg["solver"])
    error = record.RecError(log, cfg["error"])
    solve = ivpsolve.solve_adaptive_save_at(
        solver=solver, error=error, control=record.RecControl(log, ctrl), clip_dt=case["clip"],
        while_loop=record.make_while(log, max_iter=400),
    )
    T = 1.0
    pts = sorted({0.0, T} | {round(rng.uniform(0, T), 6) for _ in range(rng.randint(1, 5))})
    try:
        with jax.disable_jit():
            sol = solve(cfg["prior"], jnp.asarray(pts), atol=case["tol"], rtol=case["tol"], dt0=case["dt0"], eps=eps)
    except record.BudgetExceeded:
        # a real configuration that needs more than 400 loop iterations between two checkpoints (random controller
        # parameters can make accepted steps crawl): the partial trace is still judged, the run counts as unfinished
        Vp, Cp = stepctl.check_trace(log.events, save_at=pts, eps=eps, clip=case["clip"], fmin=params["factor_min"], fmax=params["factor_max"],
                                     dt0=case["dt0"], result_t=None, result_steps=None, partial=True)
        obs_p = dict(Cp)
        obs_p["real_runs_unfinished"] = 1
        viols_p = [util.viol(rule, msg, tags={"kind": "real", "fact": case["fact"], "strategy": case["strategy"], "partial": True},
                             witness={"events_around": log.events[max(0, i - 6): i + 3], "save_at": pts}) for rule, msg, i in Vp[:5]]
        return {"violations": viols_p, "obs": obs_p, "sigs": [], "sample": None}
    V, C = stepctl.check_trace(
        log.events, save_at=pts, eps=eps, clip=case["clip"], fmin=params["factor_min"], fmax=params["factor_max"],
        dt0=case["dt0"], result_t=[float(x) for x in np.asarray(sol.t)],
        result_steps=[0] + [int(x) for x in np.asarray(sol.num_steps)],
    )
    obs = dict(C)
    obs["real_runs"] = 1
    viols = [
        util.viol(rule, msg, tags={"kind": "real", "fact": case["fact"], "strategy": case["strategy"]},
                  witness={"events_around": log.events[max(0, i - 6): i + 3], "save_at": pts})
        for rule, msg, i in V[:5]
    ]
    if not np.all(np.isfinite(np.asarray(sol.u.mean_flat))):
        viols.append(util.viol("finite", "non-finite solution", tags={"kind": "real"}))
    sigs = []
    if C["rejected"] >= 1 and C["interp_fwd"] + C["interp_at"] >= 1:
        sigs.append(f"real|{case['fact']}|{case['strategy']}|{case['cal']}|{case['ts']}|{case['ctrl']}|c{int(case['clip'])}")
    return {"violations": viols, "obs": obs, "sigs": sigs, "sample": None}

"""C17 — Jacobian handlers return exact or exactly-unbiased Jacobian blocks.

Monitor: ``probdiffeq.backend.random.rademacher`` is interposed so that a handler built with
num_probes = 2^(n*d) receives the *full enumeration* of sign tensors; the average over all
probes must then equal the exact block (no Monte-Carlo tolerance). The exact Jacobian is an
analytic numpy formula for the generated map, independent of jax AD.
"""

import itertools

import numpy as np

from pdv import util

ID = "C17"
LEVEL = "exploration"
RULE = (
    "cases = handler (materialize/mc_fwd/mc_rev) x block (dense/trace/diagonal) x random smooth map "
    "(n_in,d)->(n_out,d), n<=4, d<=4, non-square on purpose, n*d<=12 (quick) / 16 (thorough) so that all "
    "2^(n*d) Rademacher probes are enumerated; non-trivial = n_in != n_out or d>1 with a Jacobian whose "
    "off-block entries are non-zero; distinct = (handler, block, n_in, n_out, d); plus a fixed table of "
    "malformed inputs that must raise"
)
ASSUMPTIONS = [
    "the analytic Jacobian of the generated map (linear + sin + bilinear terms) coded in numpy is the reference",
    "jax.random.split produces distinct keys for distinct inputs (trusted JAX)",
]
REQUIRED_OBS = {"history_calls": 24, "blocks_compared": 20, "probe_enumerations": 4, "rejections_checked": 4}
TOL = 1e-11


def cases(tier, seed):
    rng = util.rng_for(ID, tier, seed)
    cap = 12 if tier == "quick" else 16
    out = []
    reps = 3 if tier == "quick" else 10
    k = 0
    for handler in ("materialize", "mc_fwd", "mc_rev"):
        for block in ("dense", "trace", "diagonal"):
            for _ in range(reps):
                while True:
                    n_in, n_out, d = rng.randint(1, 4), rng.randint(1, 4), rng.randint(1, 4)
                    nprobe = (n_in if handler == "mc_fwd" else n_out) * d
                    if handler == "materialize" or block == "dense" or nprobe <= cap:
                        break
                out.append(
                    {
                        "id": f"{handler}-{block}-{k}",
                        "kind": "blocks",
                        "handler": handler,
                        "block": block,
                        "n_in": n_in,
                        "n_out": n_out,
                        "d": d,
                        "mapseed": rng.randrange(10**9),
                        "cost": 2.0 ** (nprobe - 8) if handler != "materialize" and block != "dense" else 0.1,
                    }
                )
                k += 1
    for handler in ("materialize", "mc_fwd", "mc_rev"):
        out.append({"id": f"reject-{handler}", "kind": "reject", "handler": handler})
        out.append({"id": f"keys-{handler}", "kind": "keys", "handler": handler, "mapseed": rng.randrange(10**9)})
        for j in range(2 if tier == "quick" else 6):
            out.append({"id": f"history-{handler}-{j}", "kind": "history", "handler": handler, "mapseed": rng.randrange(10**9)})
    return out


def _make_map(seed, n_in, n_out, d):
    r = np.random.default_rng(seed)
    A = r.normal(size=(n_out, d, n_in, d))
    B = r.normal(size=(n_out, d, n_in, d))
    C = r.normal(size=(n_out, d))
    i1 = r.integers(0, n_in, size=(n_out, d)), r.integers(0, d, size=(n_out, d))
    i2 = r.integers(0, n_in, size=(n_out, d)), r.integers(0, d, size=(n_out, d))

    def fun(x):
        import jax.numpy as jnp

        lin = jnp.einsum("mknl,nl->mk", A, x) + jnp.einsum("mknl,nl->mk", B, jnp.sin(x))
        bil = C * x[i1[0], i1[1]] * x[i2[0], i2[1]]
        return lin + bil

    def value(x):
        return np.einsum("mknl,nl->mk", A, x) + np.einsum("mknl,nl->mk", B, np.sin(x)) + C * x[i1] * x[i2]

    def jac(x):
        J = A + B * np.cos(x)[None, None, :, :]
        for m in range(n_out):
            for k in range(d):
                J[m, k, i1[0][m, k], i1[1][m, k]] += C[m, k] * x[i2[0][m, k], i2[1][m, k]]
                J[m, k, i2[0][m, k], i2[1][m, k]] += C[m, k] * x[i1[0][m, k], i1[1][m, k]]
        return J

    return fun, value, jac


def _handler(name, num_probes=10, seed=1):
    from probdiffeq import probdiffeq

    if name == "materialize":
        return probdiffeq.jacobian_materialize()
    if name == "mc_fwd":
        return probdiffeq.jacobian_monte_carlo_fwd(seed=seed, num_probes=num_probes)
    return probdiffeq.jacobian_monte_carlo_rev(seed=seed, num_probes=num_probes)


class _Interposer:
    """Replace backend.random.rademacher by the full sign enumeration; log every call."""

    def __init__(self):
        self.calls = []

    def __enter__(self):
        from probdiffeq.backend import random as brandom

        self._mod = brandom
        self._orig = brandom.rademacher

        def fake(key, /, shape, dtype):
            import jax.numpy as jnp

            self.calls.append({"key": np.asarray(jax_key_data(key)).tolist(), "shape": tuple(shape)})
            s, *rest = shape
            n = int(np.prod(rest))
            if s % (2**n) != 0:
                msg = f"interposer needs num_probes to be a multiple of 2^{n}, got {s}"
                raise AssertionError(msg)
            # whatever probe shape the handler asks for: every sign pattern of that shape equally often, so that the
            # average over the probes is the exact expectation of the handler's estimator
            signs = np.asarray(list(itertools.product([-1.0, 1.0], repeat=n)))
            signs = np.tile(signs, (s // 2**n, 1))
            return jnp.asarray(signs.reshape((s, *rest)), dtype=dtype)

        brandom.rademacher = fake
        return self

    def __exit__(self, *exc):
        self._mod.rademacher = self._orig


def jax_key_data(key):
    import jax

    try:
        return jax.random.key_data(key)
    except Exception:  # noqa: BLE001
        return key


def _expected(block, J):
    if block == "dense":
        return J
    if block == "trace":
        return np.einsum("mknk->mn", J)
    return np.einsum("mknk->kmn", J)


def run_case(case):
    import jax
    import jax.numpy as jnp

    kind = case["kind"]
    viols, obs, sigs = [], {"cases": 1}, []
    if kind == "blocks":
        n_in, n_out, d = case["n_in"], case["n_out"], case["d"]
        fun, value, jac = _make_map(case["mapseed"], n_in, n_out, d)
        x = np.random.default_rng(case["mapseed"] + 1).normal(size=(n_in, d))
        J = jac(x)
        want = _expected(case["block"], J)
        hname, block = case["handler"], case["block"]
        nprobe = (n_in if hname == "mc_fwd" else n_out) * d
        stochastic = hname != "materialize" and block != "dense"
        h = _handler(hname, num_probes=2**nprobe if stochastic else 10)
        state = h.init_jacobian_handler()
        meth = {
            "dense": h.materialize_dense,
            "trace": h.calculate_trace_along_d,
            "diagonal": h.calculate_diagonal_along_d,
        }[block]
        with _Interposer() as ip:
            fx, got, state_new = meth(fun, jnp.asarray(x), state)
        got = np.asarray(got, float)
        tags = {"handler": hname, "block": block}
        e_val = util.rel_err(np.asarray(fx), value(x), floor=1.0)
        if e_val > TOL:
            viols.append(util.viol("function_value", f"f(x) off by {e_val:.3g}", tags=tags))
        if got.shape != want.shape:
            viols.append(util.viol("block_shape", f"{block} block has shape {got.shape}, expected {want.shape}", tags=tags))
        else:
            err = float(np.max(np.abs(got - want))) / max(1.0, float(np.max(np.abs(J))))
            obs["max_block_err"] = err
            obs["blocks_compared"] = 1
            if err > TOL:
                viols.append(
                    util.viol(
                        "block_value",
                        f"{hname}.{block}: max abs deviation {err:.3g} from the exact block "
                        f"({'average over all %d probes' % 2**nprobe if stochastic else 'deterministic'})",
                        tags=tags,
                        witness={"n_in": n_in, "n_out": n_out, "d": d, "got": got, "want": want},
                    )
                )
        if stochastic:
            obs["probe_enumerations"] = 1
            obs["probes_drawn"] = 2**nprobe
            if len(ip.calls) != 1:
                viols.append(util.viol("probe_calls", f"{len(ip.calls)} rademacher calls, expected 1", tags=tags))
            k0, k1 = np.asarray(jax_key_data(state)), np.asarray(jax_key_data(state_new))
            if np.array_equal(k0, k1):
                viols.append(util.viol("key_not_advanced", "returned key equals the input key", tags=tags))
            if ip.calls and np.array_equal(np.asarray(ip.calls[0]["key"]), k1):
                viols.append(util.viol("key_reuse", "the probe sub-key is also returned as the next key", tags=tags))
        if n_in != n_out or d > 1:
            sigs.append(f"{hname}|{block}|{n_in}|{n_out}|{d}")
        sample = {"handler": hname, "block": block, "shape": [n_in, n_out, d], "max_abs_dev": obs.get("max_block_err")}
        return {"violations": viols, "obs": obs, "sigs": sigs, "sample": sample}

    if kind == "history":
        # one handler instance, a sequence of calls: the same function object with different keyword arguments, a second
        # function of the same shapes, different points, all three methods interleaved. Every answer must be exact for the
        # arguments of *that* call (seed C17-s3 cached the Jacobian transform per function object with the first kwargs).
        hname = case["handler"]
        r = np.random.default_rng(case["mapseed"])
        n_in, n_out, d = 2, 2, 2
        A1, A2 = jnp.asarray(r.normal(size=(n_out, n_in))), jnp.asarray(r.normal(size=(n_out, n_in)))
        Bm = jnp.asarray(r.normal(size=(d, d)))

        def f1(x, *, t, w):
            return jnp.tanh(t * (A1 @ x @ Bm)) + w * (A2 @ (x * x))

        def f2(x, *, t, w):
            return jnp.sin(A2 @ x) * t + w * (A1 @ x @ Bm.T)

        nprobe = (n_in if hname == "mc_fwd" else n_out) * d
        h = _handler(hname, num_probes=2**nprobe)
        state = h.init_jacobian_handler()
        worst = 0.0
        with _Interposer():
            for i in range(8):
                f = f1 if i % 4 != 3 else f2
                kw = {"t": float(r.uniform(-2, 2)), "w": float(r.uniform(-1, 1))}
                x = jnp.asarray(r.normal(size=(n_in, d)))
                block = ["dense", "trace", "diagonal"][int(r.integers(0, 3))]
                meth = {"dense": h.materialize_dense, "trace": h.calculate_trace_along_d, "diagonal": h.calculate_diagonal_along_d}[block]
                fx, got, state = meth(f, x, state, **kw)
                J = np.asarray(jax.jacfwd(lambda s_, f=f, kw=kw: f(s_, **kw))(x), float)
                want = _expected(block, J)
                e_val = util.rel_err(np.asarray(fx), np.asarray(f(x, **kw)), floor=1.0)
                err = float(np.max(np.abs(np.asarray(got, float) - want))) / max(1.0, float(np.max(np.abs(J))))
                worst = max(worst, err, e_val)
                obs["history_calls"] = obs.get("history_calls", 0) + 1
                if err > TOL or e_val > TOL:
                    viols.append(util.viol("block_value_in_history", f"{hname}.{block}, call {i} of a sequence on one handler (kwargs {kw}): deviation {err:.3g} "
                                                                    f"(value {e_val:.3g}) from the exact block for the arguments of this call",
                                           tags={"handler": hname, "block": block, "call_index": i}))
                    break
        obs["max_history_err"] = worst
        return {"violations": viols, "obs": obs, "sigs": [f"history|{hname}"], "sample": {"handler": hname, "max_history_err": worst}}

    if kind == "keys":
        # successive calls must consume pairwise distinct sub-keys and return fresh keys
        hname = case["handler"]
        fun, value, jac = _make_map(case["mapseed"], 2, 3, 2)
        x = jnp.asarray(np.random.default_rng(3).normal(size=(2, 2)))
        nprobe = (2 if hname == "mc_fwd" else 3) * 2
        h = _handler(hname, num_probes=2**nprobe)
        state = h.init_jacobian_handler()
        if hname == "materialize":
            fx, _, s1 = h.calculate_trace_along_d(fun, x, state)
            obs["materialize_state_passthrough"] = int(s1 == state)
            return {"violations": viols, "obs": obs, "sigs": ["keys|materialize"]}
        seen_states = [np.asarray(jax_key_data(state)).tolist()]
        with _Interposer() as ip:
            for i in range(6):
                meth = h.calculate_trace_along_d if i % 2 == 0 else h.calculate_diagonal_along_d
                _, _, state = meth(fun, x, state)
                seen_states.append(np.asarray(jax_key_data(state)).tolist())
        subkeys = [tuple(c["key"]) for c in ip.calls]
        obs["key_calls"] = len(subkeys)
        if len(set(subkeys)) != len(subkeys) or len(subkeys) != 6:
            viols.append(util.viol("subkeys_distinct", f"sub-keys over 6 calls: {subkeys}", tags={"handler": hname}))
        st = [tuple(s) for s in seen_states]
        if len(set(st)) != len(st):
            viols.append(util.viol("key_not_advanced", f"handler states repeat: {st}", tags={"handler": hname}))
        if set(st) & set(subkeys):
            viols.append(util.viol("key_reuse", "a probe sub-key equals a carried key", tags={"handler": hname}))
        return {"violations": viols, "obs": obs, "sigs": [f"keys|{hname}"]}

    # kind == "reject": malformed inputs must raise
    hname = case["handler"]
    h = _handler(hname, num_probes=4)
    state = h.init_jacobian_handler()
    good = jnp.ones((2, 3))
    table = {
        "x_1d": (lambda s: s[None, :] * 2.0, jnp.ones((3,))),
        "x_3d": (lambda s: s[0], jnp.ones((2, 2, 3))),
        "fx_1d": (lambda s: s[0], good),
        "fx_3d": (lambda s: s[None], good),
        "d_mismatch": (lambda s: s[:, :2], good),
        # broadcast-compatible mismatches (seed C17-s5): one trailing dimension equal to one
        "d_fx_is_1": (lambda s: s[:, :1], good),
        "d_fx_is_1_rows": (lambda s: jnp.sum(s, axis=1, keepdims=True)[:1] * jnp.ones((4, 1)), good),
        "d_x_is_1": (lambda s: jnp.tile(s, (1, 3)), jnp.ones((2, 1))),
        "d_x_is_1_rows": (lambda s: jnp.tile(s[:1], (3, 2)), jnp.ones((2, 1))),
        "d_fx_larger": (lambda s: jnp.concatenate([s, s], axis=1), good),
        "fx_list": (lambda s: [s], good),
        "fx_tuple": (lambda s: (s, s), good),
        "x_list": (lambda s: s, [[1.0, 2.0, 3.0]]),
    }
    for mname in ("materialize_dense", "calculate_trace_along_d", "calculate_diagonal_along_d"):
        meth = getattr(h, mname)
        # the valid row must produce numbers
        out = meth(lambda s: 2.0 * s, good, state)
        assert np.all(np.isfinite(np.asarray(out[1])))
        for name, (fun, x) in table.items():
            obs["rejections_checked"] = obs.get("rejections_checked", 0) + 1
            try:
                res = meth(fun, x, state)
                jax.block_until_ready(res[1])
            except Exception:  # noqa: BLE001
                continue
            viols.append(
                util.viol(
                    "malformed_accepted",
                    f"{hname}.{mname} accepted malformed input '{name}' and returned numbers",
                    tags={"handler": hname, "method": mname, "corruption": name},
                )
            )
    return {"violations": viols, "obs": obs, "sigs": [f"reject|{hname}|a", f"reject|{hname}|b"]}

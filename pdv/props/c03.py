"""C03 — the smoothing posterior equals the exact Rauch-Tung-Striebel posterior.

The complete sequence of accepted steps is obtained from the solution (fixed grids) or from recording
proxies (adaptive routes); the reference is an RTS smoother in 50 digits over step ends united with the
output times, fed with the recorded filtering marginals and exact prior transitions.
"""

import numpy as np

from pdv import configs, extract, poly, record, util
from pdv.refmodel import kalman, mpl, rtsref

ID = "C03"
LEVEL = "exploration"
RULE = (
    "routes: (i) solve_fixed_grid + fixed-interval smoother (uniform and non-uniform grids); (ii) adaptive "
    "save-every-step + fixed-interval, last step overshooting (clip off) or landing on the final time (clip on); "
    "(iii) adaptive save_at + fixed-point smoother with checkpoints (incl. checkpoints at step ends); (iv) "
    "fixed-interval on a grid vs fixed-point with save_at = that grid. x factorisation x calibration x TS0/TS1 x nu x "
    "exact/inexact initial state x damping. non-trivial = >=3 steps and a non-identity last backward kernel; "
    "distinct = (route, factorisation, calibration, linearisation, nu, init, how the last step ends)"
)
ASSUMPTIONS = [
    "reference RTS smoother in mpmath over the recorded filtering marginals (the filter itself is C02's subject)",
    "the interpolation scale of a sub-interval is the scale of the step that covers it (documented convention)",
]
REQUIRED_OBS = {"marginals_compared": 60, "cross_covariances_compared": 30, "last_step_at_t1": 3, "last_step_beyond_t1": 2,
                "layout_three_inside_one_step": 0}
TOL = 1e-7
TIMEOUT = {"quick": 1500, "thorough": 3500}


def cases(tier, seed):
    rng = util.rng_for(ID, tier, seed)
    out = []
    routes = ["fixedgrid", "fixedgrid", "everystep_overshoot", "everystep_clip", "fixedpoint", "fi_vs_fp"]
    n = 54 if tier == "quick" else 378  # multiples of 54: every route meets every (factorisation, calibration) pair
    for k in range(n):
        route = routes[k % len(routes)]
        order = rng.choice([1, 1, 2])
        d = rng.randint(1, 2 if route.startswith("every") or route == "fixedpoint" else 3)
        nu = rng.randint(order, 4 if tier == "quick" else 6)
        field, inits, t0 = poly.random_problem(rng, d=d, nblocks=order, num_coeffs=nu + 1, degree=2, nterms=2,
                                               time_dep=rng.random() < 0.5)
        nsteps = rng.randint(3, 7)
        uniform = rng.random() < 0.4
        steps = [0.1] * nsteps if uniform else [configs.loguniform(rng, 5e-3, 0.3) for _ in range(nsteps)]
        out.append(
            {
                "id": f"{route}-{k}", "route": route, "fact": configs.FACTS[(k // len(routes)) % 3],
                "cal": configs.CALS[(k // (3 * len(routes))) % 3],
                # checkpoints inside a step only exist without clipping: three of four fixed-point cases run unclipped
                "clip": (k // len(routes)) % 4 == 3,
                # the 1/sqrt(N) correction of the MLE scale is an option: the covariances must follow the *reported* scale either way
                "correct": (k // len(routes)) % 2 == 0,
                "ts": rng.choice(["ts0", "ts1"]), "nu": nu, "relin": rng.random() < 0.5,
                "init": rng.choice(["exact", "exact", "inexact"]), "damp": rng.choice([0.0, 0.0, 1e-2]),
                "steps": steps, "field": field.to_json(), "inits": [[str(x) for x in blk] for blk in inits], "t0": str(t0),
                "tol": 10 ** rng.uniform(-4, -2), "dt0": 10 ** rng.uniform(-2, -0.7), "T": rng.uniform(0.3, 0.8),
                "n_ckpt": rng.randint(1, 4), "seedc": rng.randrange(10**9),
                "cost": 3.0 if route.startswith("fixed") and route != "fixedpoint" else 12.0,
            }
        )
    return out


# ---- helpers ---------------------------------------------------------------------------------------


def _mp_marginal(rv, divide=None, n=None, d=None):
    m, L = extract.normal_sqrt_dense(rv)
    Lm = mpl.M(L)
    if divide is not None:
        v = np.tile(np.broadcast_to(np.asarray(divide, float).reshape(-1) if np.ndim(divide) else np.asarray([float(divide)]), (d,)), n)
        Lm = Lm / mpl.M(v)[:, None]
    return mpl.M(m), mpl.mm(Lm, Lm.T)


def _sig(x, d, fact):
    """scale (float scalar or (d,)) -> mp scalar or per-dimension object array."""
    a = np.asarray(x, float)
    if fact == "blockdiag":
        return mpl.M(np.broadcast_to(a.reshape(-1), (d,)).copy())
    return mpl.mp.mpf(float(a.reshape(-1)[0]))


def _accepted_states(log, rec):
    """The accepted solver states in order (initial state first)."""
    out = []
    ev = log.events
    for i, e in enumerate(ev):
        if e["ev"] == "init":
            out.append(rec.states[e["uid"]])
        if e["ev"] == "step":
            err = next((x for x in ev[i + 1 : i + 3] if x["ev"] == "error"), None)
            if err is not None and err["ep"] >= 1.0:
                out.append(rec.states[e["new"]])
    return out


class _Check:
    def __init__(self, tags):
        self.viols, self.obs, self.tags = [], {}, tags

    def cmp(self, name, m, P, m_ref, P_ref, tol=TOL, witness=None, noise=None, std_floor=None):
        m_ref_f, P_ref_f = mpl.F(m_ref), mpl.F(P_ref)
        # standard deviations far below the prior's own scale over one step belong to exactly observed
        # coefficients: their float64 values are rounding noise -> only the *denominators* are floored
        dref = np.sqrt(np.maximum(np.diag(P_ref_f), 0.0))
        if std_floor is not None:
            dref = np.maximum(dref, std_floor)
        m = np.asarray(m, float)
        P = np.asarray(P, float)
        den = tol * (np.abs(m_ref_f) + dref) + (noise if noise is not None else 0.0) + 1e-300
        em = tol * float(np.max(np.abs(m - m_ref_f) / den)) if np.all(np.isfinite(m)) else float("inf")
        dd = np.outer(dref, dref)
        dd = np.where(dd > 0, dd, 1.0)
        ec = float(np.max(np.abs(P - P_ref_f) / dd)) if np.all(np.isfinite(P)) else float("inf")
        self.obs["max_dev_" + name] = max(self.obs.get("max_dev_" + name, 0.0), em, ec)
        if not (em <= tol and ec <= tol):
            self.viols.append(util.viol(name, f"{name}: mean/cov deviate from the reference by {em:.3g}/{ec:.3g} (scaled)",
                                        tags=self.tags, witness={**(witness or {}), "got_mean": m, "ref_mean": m_ref_f,
                                                                 "got_std": np.sqrt(np.maximum(np.diag(P), 0)), "ref_std": np.sqrt(np.maximum(np.diag(P_ref_f), 0))}))
            return False
        return True


def _std_floors(model, out_times, sigmas, obs_times, fs, n, d):
    """1e-7 x the prior's process-noise standard deviation over the local step, per output time."""
    floors = []
    for i, t in enumerate(out_times):
        h = (out_times[i] - out_times[i - 1]) if i > 0 else (out_times[1] - out_times[0])
        _, Q = model.transition(max(h, 1e-12))
        k = min(range(1, len(obs_times)), key=lambda kk: (obs_times[kk] + 1e-8 < t, abs(obs_times[kk] - t))) if len(obs_times) > 1 else 1
        Q = kalman.scale_cov(Q, sigmas[min(k, len(sigmas) - 1)], n, d)
        if fs is not None:
            Q = kalman.scale_cov(Q, fs, n, d)
        floors.append(1e-7 * np.sqrt(np.maximum(np.diag(mpl.F(Q)), 0.0)))
    return floors


def _judge(case, cfg, sol, obs_times, filt, sigmas, final_scale, how_ended, tags, tol=None):
    """Compare the returned smoothing solution with the reference. filt/sigmas in the working (unit) scale."""
    if tol is None:
        # float64 smoothing at 6-7 Taylor coefficients amplifies rounding by ~1e10 (measured deviations up to 1e-5)
        # rounding amplification grows by about two decades per order beyond four derivatives (measured 1e-3 .. 2e-3 on
        # covariances at nu = 6 for fixed-point runs on the step grid); the quick tier uses nu <= 4
        tol = TOL if case["nu"] <= 4 else (1e-4 if case["nu"] == 5 else 1e-2)
    fact, nu = case["fact"], case["nu"]
    d, n = cfg["d"], nu + 1
    field = cfg["prob"]["field"]
    model = kalman.Model(field=field, fact=fact, ts=case["ts"], nu=nu, d=d, base=None, damp=case["damp"])
    out_times = [float(t) for t in np.asarray(sol.t)]
    floors = _std_floors(model, out_times, sigmas, obs_times, final_scale, n, d)
    marg, cross, filt_out = rtsref.smoother_reference(model, obs_times, filt, sigmas, out_times)
    C = _Check(tags)
    T = len(out_times)
    fs = final_scale  # None, mp scalar or per-dim array: calibrated = unit * fs^2
    for i in range(T):
        m, L = extract.normal_sqrt_dense(extract.tree_index(sol.u, i))
        P_ref = marg[i][1] if fs is None else kalman.scale_cov(marg[i][1], fs, n, d)
        ok = C.cmp("smoothing_marginal", m, L @ L.T, marg[i][0], P_ref, tol=tol, witness={"index": i, "t": out_times[i], "how_ended": how_ended},
                   noise=rtsref.smoother_reference.mean_noise[i], std_floor=floors[i])
        C.obs["marginals_compared"] = C.obs.get("marginals_compared", 0) + 1
        if not ok:
            break
    # (b) explicit: last step ends at the final time -> terminal marginal is the filtering marginal there
    if how_ended == "at_t1":
        m, L = extract.normal_sqrt_dense(extract.tree_index(sol.u, T - 1))
        P_ref = filt_out[-1][1] if fs is None else kalman.scale_cov(filt_out[-1][1], fs, n, d)
        C.cmp("terminal_is_filtering", m, L @ L.T, filt_out[-1][0], P_ref, tol=tol, witness={"t": out_times[-1]}, std_floor=floors[-1])
    # (c) smoothed variances never exceed filtered ones
    full = sol.solution_full
    filtering = getattr(full, "filtering", None)
    if filtering is not None:
        for i in range(T):
            _, Ls = extract.normal_sqrt_dense(extract.tree_index(sol.u, i))
            _, Lf = extract.normal_sqrt_dense(extract.tree_index(filtering, i))
            vs, vf = np.sum(Ls**2, axis=1), np.sum(Lf**2, axis=1)
            if np.any(vs > vf * (1 + 1e-7) + 1e-300):
                j = int(np.argmax(vs - vf))
                C.viols.append(util.viol("smoothed_le_filtered", f"index {i}: smoothed variance {vs[j]:.6g} exceeds filtered {vf[j]:.6g} (component {j})", tags=tags))
                break
        C.obs["variance_order_checked"] = T
    # (d) the returned backward factorisation reproduces marginals and cross-covariances
    post = getattr(full, "posterior", None)
    if post is not None:
        means_mp, cov_mp = extract.markov_joint_mp(post, d)  # 50 digits: the float64 recursion loses precision
        means = [mpl.F(x) for x in means_mp]
        joint_noise = extract.markov_joint_mp.mean_noise
        cov = {kk: mpl.F(vv) for kk, vv in cov_mp.items() if kk[1] - kk[0] <= 1}
        for i in range(T):
            m, P = extract.normal_dense(extract.tree_index(sol.u, i))
            dref = np.maximum(np.sqrt(np.maximum(np.diag(P), 0)), floors[i])
            em = TOL * float(np.max(np.abs(means[i] - m) / (TOL * (np.abs(m) + dref) + joint_noise[i] + 1e-300)))
            ec = float(np.max(np.abs(cov[(i, i)] - P) / np.outer(dref, dref)))
            C.obs["max_dev_factorisation_marginal"] = max(C.obs.get("max_dev_factorisation_marginal", 0.0), em, ec)
            if not (em <= tol and ec <= tol):
                C.viols.append(util.viol("factorisation_marginal", f"marginalising the returned backward kernels gives a different marginal at index {i} ({em:.3g}/{ec:.3g})", tags=tags))
                break
        for i in range(T - 1):
            Cref = cross[i] if fs is None else kalman.scale_cov(cross[i], fs, n, d)
            Pa = marg[i][1] if fs is None else kalman.scale_cov(marg[i][1], fs, n, d)
            Pb = marg[i + 1][1] if fs is None else kalman.scale_cov(marg[i + 1][1], fs, n, d)
            da = np.maximum(np.sqrt(np.maximum(np.diag(mpl.F(Pa)), 0)), floors[i])
            db = np.maximum(np.sqrt(np.maximum(np.diag(mpl.F(Pb)), 0)), floors[i + 1])
            den = np.outer(da, db)
            den = np.where(den > 0, den, 1.0)
            e = float(np.max(np.abs(cov[(i, i + 1)] - mpl.F(Cref)) / den))
            C.obs["max_dev_cross_covariance"] = max(C.obs.get("max_dev_cross_covariance", 0.0), e)
            C.obs["cross_covariances_compared"] = C.obs.get("cross_covariances_compared", 0) + 1
            if not e <= tol:
                C.viols.append(util.viol("cross_covariance", f"Cov(x_{i}, x_{i+1}) from the returned kernels deviates from the RTS cross-covariance by {e:.3g}", tags=tags))
                break
        # non-trivial: last backward kernel is not the identity
        G, _, _ = extract.cond_dense(extract.tree_index(post.conditional, T - 2))
        C.obs["nonidentity_last_kernel"] = int(not np.allclose(G, np.eye(G.shape[0])))
    return C


def run_case(case):
    import jax
    import jax.numpy as jnp
    from probdiffeq import ivpsolve
    from probdiffeq.util import test_util

    fact, cal, nu, route = case["fact"], case["cal"], case["nu"], case["route"]
    problem = {"name": "poly", "field": case["field"], "inits": case["inits"], "t0": case["t0"]}
    strategy = "fixedpoint" if route == "fixedpoint" else "fixedinterval"
    kw = dict(fact=fact, cal=cal, ts=case["ts"], nu=nu, problem=problem, init=case["init"], inexact_eps=1e-3,
              relinearize=case["relin"], correct_underconfidence=case.get("correct", True))
    cfg = configs.build(strategy=strategy, **kw)
    d, n = cfg["d"], nu + 1
    t0 = cfg["prob"]["t0"]
    tags = {k: case[k] for k in ("route", "fact", "cal", "ts", "init", "damp")}
    tags["nu"] = nu
    obs = {"cases": 1}

    if route in ("fixedgrid", "fi_vs_fp"):
        grid = np.concatenate([[t0], t0 + np.cumsum(case["steps"])])
        sol_fp = None
        if route == "fi_vs_fp":
            # (e) an adaptive fixed-point run defines a step grid; fixed-interval smoothing on exactly that grid and
            # fixed-point smoothing with save_at = that grid must both equal the same reference posterior.
            cfg_fp = configs.build(strategy="fixedpoint", **kw)
            log = record.Log()
            T1 = t0 + case["T"]
            rec = record.RecSolver(log, cfg_fp["solver"], keep_states=True)
            solve_rec = ivpsolve.solve_adaptive_save_at(solver=rec, error=record.RecError(log, cfg_fp["error"]), clip_dt=True,
                                                        while_loop=record.make_while(log, max_iter=200))
            try:
                with jax.disable_jit():
                    solve_rec(cfg_fp["prior"], jnp.asarray([t0, T1]), atol=case["tol"], rtol=case["tol"], dt0=case["dt0"], damp=case["damp"])
                g2 = np.asarray([float(s.t) for s in _accepted_states(log, rec)])
            except record.BudgetExceeded:
                g2 = np.zeros(0)
            if len(g2) >= 4 and abs(g2[-1] - T1) <= 1e-8:
                grid = g2
                sol_fp = jax.jit(ivpsolve.solve_adaptive_save_at(solver=cfg_fp["solver"], error=cfg_fp["error"], clip_dt=True, while_loop=configs.bounded_while()))(
                    cfg_fp["prior"], jnp.asarray(g2), atol=case["tol"], rtol=case["tol"], dt0=case["dt0"], damp=case["damp"])
        sol = jax.jit(ivpsolve.solve_fixed_grid(solver=cfg["solver"]))(cfg["prior"], grid=jnp.asarray(grid), damp=case["damp"])
        if float(np.nanmax(np.abs(np.nan_to_num(np.asarray(sol.u.mean_flat), nan=1e300)))) > 1e4:
            return {"violations": [], "obs": {"cases": 1, "exploded_skipped": 1}, "sigs": []}
        T = len(grid)

        def unit_inputs(s):
            scale = np.asarray(s.output_scale, float)
            if scale.shape[0] == T - 1:
                scale = np.concatenate([scale[:1], scale])
            filtering = sol.solution_full.filtering
            if cal == "mle":
                # filtering marginals of the fixed-interval run are calibrated with *its* scale
                sc_fi = np.asarray(sol.output_scale, float)[-1]
                filt_ = [_mp_marginal(extract.tree_index(filtering, k), divide=sc_fi, n=n, d=d) for k in range(T)]
                return filt_, [None] + [_sig(1.0, d, fact)] * (T - 1), _sig(scale[-1], d, fact)
            filt_ = [_mp_marginal(extract.tree_index(filtering, k)) for k in range(T)]
            if cal == "dynamic":
                sc_fi = np.asarray(sol.output_scale, float)
                return filt_, [None] + [_sig(sc_fi[k], d, fact) for k in range(1, T)], None
            return filt_, [None] + [_sig(1.0, d, fact)] * (T - 1), None

        filt, sigmas, fs = unit_inputs(sol)
        C = _judge(case, cfg, sol, list(grid), filt, sigmas, fs, "at_t1", tags)
        C.obs["last_step_at_t1"] = 1
        how = "at_t1"
        if sol_fp is not None and not C.viols:
            ns = np.asarray(sol_fp.num_steps)
            if len(ns) == T - 1 and np.array_equal(ns, np.arange(1, T)):
                filt2, sigmas2, fs2 = unit_inputs(sol_fp)
                # two separate runs: in dynamic mode their per-step scale estimates differ by the rounding
                # sensitivity of tiny residuals (~1e-7 relative), which moves every covariance by that much
                C2 = _judge(case, cfg_fp, sol_fp, list(grid), filt2, sigmas2, fs2, "at_t1", {**tags, "route": "fi_vs_fp:fixedpoint"},
                            tol=(1e-5 if cal == "dynamic" else TOL) if nu <= 4 else (1e-4 if nu == 5 else 1e-2))
                for v in C2.viols:
                    v["suboracle"] = "fixedpoint_on_stepgrid_" + v["suboracle"]
                C.viols += C2.viols
                for kk, vv in C2.obs.items():
                    if kk.startswith("max_dev"):
                        C.obs[kk + "_fp"] = vv
                C.obs["marginals_compared"] += C2.obs.get("marginals_compared", 0)
                C.obs["cross_covariances_compared"] = C.obs.get("cross_covariances_compared", 0) + C2.obs.get("cross_covariances_compared", 0)
                sa, sb = np.asarray(sol.output_scale, float)[-1], np.asarray(sol_fp.output_scale, float)[-1]
                if util.rel_err(sb, sa, floor=1e-300) > (1e-5 if cal == "dynamic" or nu >= 5 else 1e-7):
                    C.viols.append(util.viol("fixedinterval_vs_fixedpoint_scale", f"output scales differ: {sa} vs {sb}", tags=tags))
                C.obs["fi_vs_fp_pairs"] = 1
            else:
                C.obs["fi_vs_fp_step_mismatch"] = 1
    else:
        log = record.Log()
        rec = record.RecSolver(log, cfg["solver"], keep_states=True)
        rerr = record.RecError(log, cfg["error"])
        T1 = t0 + case["T"]
        try:
            if route.startswith("everystep"):
                clip = route.endswith("clip")
                # the repository's save-every-step utility rebuilt with bounded loops (its rejection loop can livelock
                # under clipping, finding D15; an unbounded eager loop would hang the check)
                solve = configs.save_every_step(rec, rerr, clip_dt=clip, while_loop=record.make_while(log, max_iter=200), jit=False, max_steps=400)
                with jax.disable_jit():
                    sol = solve(cfg["prior"], t0, T1, atol=case["tol"], rtol=case["tol"], dt0=case["dt0"], damp=case["damp"])
                if sol is None:
                    raise record.BudgetExceeded("save-every-step outer budget")
            else:
                r = np.random.default_rng(case["seedc"])
                clip = bool(case.get("clip", case["seedc"] % 2))
                # two-pass construction: record the natural step ends first, then force the layouts that matter:
                # several checkpoints inside one step, a checkpoint exactly at a step end, plus random ones
                log0 = record.Log()
                rec0 = record.RecSolver(log0, cfg["solver"], keep_states=True)
                solve0 = ivpsolve.solve_adaptive_save_at(solver=rec0, error=record.RecError(log0, cfg["error"]), clip_dt=False,
                                                         while_loop=record.make_while(log0, max_iter=200))
                with jax.disable_jit():
                    solve0(cfg["prior"], jnp.asarray([t0, T1]), atol=case["tol"], rtol=case["tol"], dt0=case["dt0"], damp=case["damp"])
                ends = [float(s.t) for s in _accepted_states(log0, rec0)]
                pts = {t0, T1} | {float(x) for x in t0 + case["T"] * r.uniform(0.05, 0.95, size=case["n_ckpt"])}
                inner = [(a, b) for a, b in zip(ends[:-1], ends[1:]) if b < T1]
                layout = []
                if inner:
                    a, b = inner[int(r.integers(0, len(inner)))]
                    pts |= {float(a + (b - a) * f) for f in (0.25, 0.5, 0.8)}
                    layout.append("three_inside_one_step")
                    if r.random() < 0.6:
                        pts.add(float(inner[int(r.integers(0, len(inner)))][1]))
                        layout.append("at_step_end")
                obs["layout_" + "+".join(layout or ["random"])] = 1
                save_at = sorted(pts)
                solve = ivpsolve.solve_adaptive_save_at(solver=rec, error=rerr, clip_dt=clip,
                                                        while_loop=record.make_while(log, max_iter=200))
                with jax.disable_jit():
                    sol = solve(cfg["prior"], jnp.asarray(save_at), atol=case["tol"], rtol=case["tol"], dt0=case["dt0"], damp=case["damp"])
        except record.BudgetExceeded:
            return {"violations": [], "obs": {"cases": 1, "budget_hits": 1}, "sigs": []}
        states = _accepted_states(log, rec)
        if float(np.nanmax(np.abs(np.nan_to_num(np.asarray(sol.u.mean_flat), nan=1e300)))) > 1e4:
            return {"violations": [], "obs": {"cases": 1, "exploded_skipped": 1}, "sigs": []}
        obs_times = [float(s.t) for s in states]
        filt = [_mp_marginal(s.u) for s in states]
        if cal == "dynamic":
            sigmas = [None] + [_sig(np.asarray(s.output_scale, float), d, fact) for s in states[1:]]
        else:
            sigmas = [None] + [_sig(1.0, d, fact)] * (len(states) - 1)
        fs = None
        if cal == "mle":
            fs = _sig(np.asarray(sol.output_scale, float)[-1], d, fact)
        t_end = float(np.asarray(sol.t)[-1])
        how = "at_t1" if abs(obs_times[-1] - t_end) <= 1e-8 else "beyond_t1"
        C = _judge(case, cfg, sol, obs_times, filt, sigmas, fs, how, tags)
        C.obs["last_step_at_t1"] = int(how == "at_t1")
        C.obs["last_step_beyond_t1"] = int(how == "beyond_t1")
        C.obs["accepted_steps_recorded"] = len(states) - 1
    obs.update(C.obs)
    sigs = []
    nsteps = obs.get("accepted_steps_recorded", len(case["steps"]))
    if nsteps >= 3 and obs.get("nonidentity_last_kernel", 1):
        sigs.append("|".join(str(tags[k]) for k in ("route", "fact", "cal", "ts", "nu", "init")) + f"|{how}")
    sample = {"config": tags, "how_ended": how, "steps": nsteps, "deviations": {k: v for k, v in obs.items() if k.startswith("max_dev")}}
    return {"violations": C.viols, "obs": obs, "sigs": sigs, "sample": sample}

"""C08 — Gaussian conditional algebra is exact in every factorisation.

Monitor: direct calls on the repo's LatentCond / Normal objects with hostile generated parts;
reference = dense Gaussian formulas on our own dense embedding, evaluated in 50-digit arithmetic.
``revert`` is judged through the joint law of (x, y), which is valid for singular covariances.
"""

import math

import numpy as np

from pdv import extract, util
from pdv.refmodel import mpl

ID = "C08"
LEVEL = "exploration"
RULE = (
    "one case = one factorisation x shapes (n<=9 coefficients, d<=5, 1..n observed rows) x factor kinds "
    "(well/ill-conditioned up to 1e12, rank-deficient, zero, non-triangular) x scalings log-uniform in "
    "[1e-12,1e12]; every operation (marginalise, apply_flat, merge, preconditioner_apply, revert with both "
    "triangular solves, bayes-rule composites, logpdf, rms, std, rescale, dense conversion, to_derivative, "
    "identity, vmapped variants) is evaluated on it. non-trivial = d>1 or n>1 with non-unit scalings; "
    "distinct = (factorisation, n, k, d, prior kind, noise kind, scaling kind)"
)
ASSUMPTIONS = [
    "dense multivariate-normal formulas evaluated with mpmath (50 digits) on an embedding built from the raw "
    "fields by our own code are the reference",
    "whitened residual norms are only requested for lower-triangular factors (the documented Cholesky format)",
]
REQUIRED_OBS = {"ops_compared": 200, "revert_joint_checks": 20, "singular_cases": 2}

TOL = 1e-9
FACTS = ["dense", "isotropic", "blockdiag"]


def _lu(rng, lo, hi):
    return math.exp(rng.uniform(math.log(lo), math.log(hi)))


def cases(tier, seed):
    rng = util.rng_for(ID, tier, seed)
    out = []
    n_cases = 60 if tier == "quick" else 600
    for i in range(n_cases):
        fact = FACTS[i % 3]
        if tier == "quick":
            n, d = rng.randint(1, 5), rng.randint(1, 3)
        else:
            n, d = rng.randint(1, 9), rng.randint(1, 5)
            if fact == "dense" and n * d > 24:
                d = max(1, 24 // n)
        k = rng.randint(1, n)
        forced_singular = i % 10 < 2 and n >= 2  # exactly singular observed covariance, constructed
        if forced_singular:
            k = rng.randint(2, n)
        out.append(
            {
                "id": f"{fact}-{i}", "fact": fact, "n": n, "d": d, "k": k, "k2": rng.randint(1, k),
                "prior_kind": rng.choice(["well", "well", "ill", "rankdef", "zero", "nontri", "exact_rows", "exact_rows"]),
                "noise_kind": "zero" if forced_singular else rng.choice(["well", "well", "zero", "rankdef", "tiny", "exact_rows"]),
                "scaling": rng.choice(["unit", "powers", "wild"]),
                "dup_rows": forced_singular or rng.random() < 0.1,
                "seedm": rng.randrange(10**9),
                "cost": (n * d) ** 2 / 100.0 + 1,
            }
        )
    return out


# ---- generators --------------------------------------------------------------------


def _factor(r, m, kind):
    if kind == "zero":
        return np.zeros((m, m))
    if kind == "well":
        L = np.tril(r.normal(size=(m, m))) * 0.3
        L[np.arange(m), np.arange(m)] = r.uniform(0.5, 2.0, size=m)
        return L
    if kind == "tiny":
        L = np.tril(r.normal(size=(m, m)))
        L[np.arange(m), np.arange(m)] = r.uniform(0.5, 2.0, size=m)
        return 1e-7 * L
    if kind == "nontri":
        return r.normal(size=(m, m)) + np.eye(m)
    if kind == "ill":
        Q1, _ = np.linalg.qr(r.normal(size=(m, m)))
        s = np.logspace(0, -r.uniform(6, 12), m) if m > 1 else np.ones(1)
        return np.tril(Q1 * s[None, :]) + 0.0  # keep lower triangular; still ill-conditioned
    if kind == "exact_rows":
        # some coordinates are known exactly (zero rows/columns), the others are uncertain: the situation of
        # exact leading Taylor coefficients next to diffuse higher ones
        L = np.tril(r.normal(size=(m, m))) * 0.3
        L[np.arange(m), np.arange(m)] = r.uniform(0.5, 2.0, size=m)
        if m > 1:
            mode = r.integers(0, 3)
            k0 = int(r.integers(1, m))
            idx = np.arange(k0) if mode == 0 else (np.arange(m - k0, m) if mode == 1 else r.choice(m, size=k0, replace=False))
            L[idx, :] = 0.0
            if r.random() < 0.5:
                L[:, idx] = 0.0  # else: the factor keeps its columns (zero rows followed by correlated rows)
        return L
    if kind == "rankdef":
        L = np.tril(r.normal(size=(m, m)))
        if m > 1:
            j = r.integers(0, m)
            L[:, j] = 0.0
            if m > 2 and r.random() < 0.5:
                L[m - 1, :] = L[m - 2, :]
        else:
            L[:] = 0.0
        return L
    raise ValueError(kind)


def _scalings(r, m, kind):
    if kind == "unit":
        return np.ones(m)
    if kind == "powers":
        h = math.exp(r.uniform(math.log(1e-4), math.log(1e2)))
        p = np.asarray([h ** (m - 1 - i) / math.factorial(m - 1 - i) for i in range(m)])
        return np.clip(p, 1e-12, 1e12)
    return np.exp(r.uniform(math.log(1e-12), math.log(1e12), size=m))


def _classes(fact):
    """(ssm, normal class, conditional class, tree-flatten factory) obtained through the public API."""
    import jax.numpy as jnp
    from probdiffeq import probdiffeq

    ssm = {
        "dense": probdiffeq.state_space_model_dense,
        "isotropic": probdiffeq.state_space_model_isotropic,
        "blockdiag": probdiffeq.state_space_model_blockdiag,
    }[fact]()

    def example(n, d):
        prior = ssm.prior_wiener_integrated([jnp.zeros((d,)) for _ in range(n)])
        tr = prior.transition(dt=jnp.asarray(0.5), output_scale=jnp.ones((d,)) if fact == "blockdiag" else jnp.asarray(1.0))
        return prior.init, tr

    return ssm, example


def _mk_normal(fact, proto, mean_nd, L):
    """mean_nd: (n, d); L: dense (n*d,n*d) | iso (n,n) | bd (d,n,n)."""
    import jax.numpy as jnp

    cls = type(proto)
    if fact == "dense":
        return cls(jnp.asarray(mean_nd.reshape(-1)), jnp.asarray(L), proto.tree_flatten)
    if fact == "isotropic":
        return cls(jnp.asarray(mean_nd), jnp.asarray(L), proto.tree_flatten)
    return cls(jnp.asarray(mean_nd.T), jnp.asarray(L), proto.tree_flatten)


def _gen_factor(r, fact, m, d, kind):
    if fact == "dense":
        return _factor(r, m * d, kind)
    if fact == "isotropic":
        return _factor(r, m, kind)
    return np.stack([_factor(r, m, kind) for _ in range(d)])


def _gen_cond(r, fact, example, n_in, n_out, d, noise_kind, scaling, dup_rows=False):
    """A random conditional from n_in to n_out coefficients."""
    import jax.numpy as jnp

    proto_in, tr_in = example(n_in, d)
    proto_out, tr_out = example(n_out, d)
    cls = type(tr_in)
    mean = r.normal(size=(n_out, d))
    Lq = _gen_factor(r, fact, n_out, d, noise_kind)
    noise = _mk_normal(fact, proto_out, mean, Lq)
    tl = _scalings(r, n_in, scaling)
    to = _scalings(r, n_out, scaling)
    if fact == "dense":
        A = r.normal(size=(n_out * d, n_in * d))
        if dup_rows and n_out * d > 1:
            A[-1] = A[0]
        tl_a, to_a = np.repeat(tl, d), np.repeat(to, d)
    elif fact == "isotropic":
        A = r.normal(size=(n_out, n_in))
        if dup_rows and n_out > 1:
            A[-1] = A[0]
        tl_a, to_a = tl, to
    else:
        A = r.normal(size=(d, n_out, n_in))
        if dup_rows and n_out > 1:
            A[:, -1] = A[:, 0]
        tl_a = np.stack([_scalings(r, n_in, scaling) for _ in range(d)])
        to_a = np.stack([_scalings(r, n_out, scaling) for _ in range(d)])
    return cls(jnp.asarray(A), noise, jnp.asarray(tl_a), jnp.asarray(to_a))


# ---- exact embedding of raw fields (no floating-point arithmetic) -------------------------


def _embed_rows(fact, v, d):
    """Scaling vector in dense layout."""
    v = np.asarray(v, float)
    if fact == "dense":
        return v
    if fact == "isotropic":
        return np.repeat(v, d)
    return v.T.reshape(-1)


def _embed_mat(fact, A, d):
    A = np.asarray(A, float)
    if fact == "dense":
        return A
    if fact == "isotropic":
        return np.kron(A, np.eye(d))
    return extract._bd_embed(A)


def _embed_mean(fact, m):
    m = np.asarray(m, float)
    if fact == "dense":
        return m
    if fact == "isotropic":
        return m.reshape(-1)
    return m.T.reshape(-1)


def _ref_cond(fact, c, d):
    """(G, xi, Lq) in mp from raw fields: y = G x + xi + Lq eps."""
    A = mpl.M(_embed_mat(fact, c.A, d))
    tl = mpl.M(_embed_rows(fact, c.to_latent, d))
    to = mpl.M(_embed_rows(fact, c.to_observed, d))
    nm = mpl.M(_embed_mean(fact, c.noise.mean_flat))
    nc = mpl.M(_embed_mat(fact, c.noise.cholesky_flat, d))
    G = to[:, None] * A * tl[None, :]
    return G, to * nm, np.abs(to)[:, None] * nc


def _ref_normal(fact, rv, d):
    return mpl.M(_embed_mean(fact, rv.mean_flat)), mpl.M(_embed_mat(fact, rv.cholesky_flat, d))


def _absmp(x):
    return np.vectorize(abs, otypes=[object])(x)


# ---- comparison helpers -------------------------------------------------------------------


class _Cmp:
    def __init__(self, tags):
        self.viols, self.obs, self.tags = [], {"ops_compared": 0}, tags
        self.worst = {}

    def mean(self, op, got, ref, bound, tol=TOL):
        got = np.asarray(got, float)
        ref_f, b = mpl.F(ref), mpl.F(bound)
        if got.shape != ref_f.shape:
            self.viols.append(util.viol(f"{op}_shape", f"{got.shape} vs {ref_f.shape}", tags={**self.tags, "op": op}))
            return
        den = np.where(b > 0, b, 1.0)
        err = float(np.max(np.abs(got - ref_f) / den)) if np.all(np.isfinite(got)) else float("inf")
        self._note(op + "_mean", err, tol)

    def cov(self, op, got, ref, tol=TOL, di=None, dj=None):
        got = np.asarray(got, float)
        ref_f = mpl.F(ref)
        if got.shape != ref_f.shape:
            self.viols.append(util.viol(f"{op}_shape", f"{got.shape} vs {ref_f.shape}", tags={**self.tags, "op": op}))
            return
        if di is None:
            di = dj = np.sqrt(np.maximum(np.diag(ref_f), 0.0))
        den = np.outer(di, dj)
        den = np.where(den > 0, den, 1.0)
        err = float(np.max(np.abs(got - ref_f) / den)) if np.all(np.isfinite(got)) else float("inf")
        self._note(op + "_cov", err, tol)

    def scalar(self, op, got, ref, tol=TOL, floor=1.0):
        got, ref = np.asarray(got, float), np.asarray(ref, float)
        err = util.rel_err(got, ref, floor=floor)
        self._note(op, err, tol)

    def _note(self, name, err, tol):
        self.obs["ops_compared"] += 1
        self.worst[name] = max(self.worst.get(name, 0.0), err if math.isfinite(err) else 1e300)
        if not err <= tol:
            self.viols.append(
                util.viol(name, f"{name}: scaled deviation {err:.3g} from the dense formula (tol {tol:.2g})", tags={**self.tags, "op": name})
            )


def _cov_from(Ls):
    out = None
    for L in Ls:
        t = mpl.mm(L, L.T)
        out = t if out is None else out + t
    return out


def _rank(S):
    if S.shape[0] == 0:
        return 0
    vals, _ = mpl.sym_eig(S)
    top = max(abs(v) for v in vals)
    if top == 0:
        return 0
    return sum(1 for v in vals if abs(v) > top * mpl.mp.mpf(10) ** -25)


def run_case(case):
    import jax
    import jax.numpy as jnp
    from probdiffeq.backend import linalg

    fact, n, d, k, k2 = case["fact"], case["n"], case["d"], case["k"], case["k2"]
    r = np.random.default_rng(case["seedm"])
    _ssm, example = _classes(fact)
    proto_n, _ = example(n, d)
    tags = {"fact": fact, "prior_kind": case["prior_kind"], "noise_kind": case["noise_kind"], "scaling": case["scaling"]}
    C = _Cmp(tags)

    mean = r.normal(size=(n, d)) * np.exp(r.uniform(-3, 3, size=(n, 1)))
    L = _gen_factor(r, fact, n, d, case["prior_kind"])
    rv = _mk_normal(fact, proto_n, mean, L)
    cond = _gen_cond(r, fact, example, n, k, d, case["noise_kind"], case["scaling"], dup_rows=case["dup_rows"])
    cond2 = _gen_cond(r, fact, example, k, k2, d, case["noise_kind"], case["scaling"])

    m, Lp = _ref_normal(fact, rv, d)
    P = _cov_from([Lp])
    G, xi, Lq = _ref_cond(fact, cond, d)
    Sig = _cov_from([Lq])

    # --- marginalise ------------------------------------------------------------------------
    my_ref = mpl.mm(G, m) + xi
    GL = mpl.mm(G, Lp)
    Sy_ref = _cov_from([GL, Lq])
    bound_y = mpl.mm(_absmp(G), _absmp(m)) + _absmp(xi) + np.asarray([mpl.sqrt(Sy_ref[i, i]) for i in range(len(xi))], dtype=object)
    got = cond.marginalise(rv)
    gm, gL = extract.normal_sqrt_dense(got)
    C.mean("marginalise", gm, my_ref, bound_y)
    C.cov("marginalise", gL @ gL.T, Sy_ref)

    # --- apply_flat ------------------------------------------------------------------------
    x_nd = r.normal(size=(n, d))
    x_flat = {"dense": x_nd.reshape(-1), "isotropic": x_nd, "blockdiag": x_nd.T}[fact]
    xe = mpl.M(_embed_mean(fact, x_flat))
    got = cond.apply_flat(jnp.asarray(x_flat))
    gm, gL = extract.normal_sqrt_dense(got)
    ref_m = mpl.mm(G, xe) + xi
    bound = mpl.mm(_absmp(G), _absmp(xe)) + _absmp(xi)
    C.mean("apply_flat", gm, ref_m, bound)
    C.cov("apply_flat", gL @ gL.T, Sig)

    # --- preconditioner_apply ----------------------------------------------------------------
    pc = cond.preconditioner_apply()
    if not (np.all(np.asarray(pc.to_latent) == 1.0) and np.all(np.asarray(pc.to_observed) == 1.0)):
        C.viols.append(util.viol("preconditioner_units", "preconditioner_apply left non-unit scalings", tags=tags))
    G2, xi2, Lq2 = _ref_cond(fact, pc, d)
    absG = mpl.F(_absmp(G))
    errP = float(np.max(np.abs(mpl.F(G2 - G)) / np.where(absG > 0, absG, 1.0)))
    C._note("preconditioner_matrix", errP, 1e-13)
    C.mean("preconditioner_offset", mpl.F(xi2), xi, _absmp(xi) + 0)
    C.cov("preconditioner_noise", mpl.F(_cov_from([Lq2])), Sig)

    # --- merge: cond2 after cond ---------------------------------------------------------------
    Gb, xib, Lqb = _ref_cond(fact, cond2, d)
    merged = cond2.merge(cond)
    Gm, xim, Lqm = _ref_cond(fact, merged, d)
    Gm_ref = mpl.mm(Gb, G)
    absGm = mpl.mm(_absmp(Gb), _absmp(G))
    errG = float(np.max(np.abs(mpl.F(Gm - Gm_ref)) / np.where(mpl.F(absGm) > 0, mpl.F(absGm), 1.0)))
    C._note("merge_matrix", errG, TOL)
    xim_ref = mpl.mm(Gb, xi) + xib
    Sm_ref = _cov_from([mpl.mm(Gb, Lq), Lqb])
    C.mean("merge", mpl.F(xim), xim_ref, mpl.mm(_absmp(Gb), _absmp(xi)) + _absmp(xib) + np.asarray([mpl.sqrt(Sm_ref[i, i]) for i in range(len(xib))], dtype=object))
    C.cov("merge", mpl.F(_cov_from([Lqm])), Sm_ref)

    # --- revert through the joint law ------------------------------------------------------------
    ky = Sy_ref.shape[0]
    P_zero = case["prior_kind"] == "zero"
    # spectrum of S in latent coordinates = squared singular values of the factor the solves see
    toe = mpl.M(np.abs(_embed_rows(fact, cond.to_observed, d)))
    S_lat = Sy_ref / (toe[:, None] * toe[None, :])
    vals, _ = mpl.sym_eig(S_lat)
    top = max(abs(v) for v in vals)
    ratio = 0.0 if top == 0 else float(mpl.sqrt(max(min(vals), 0) / top))
    # regular: both triangular solve and lstsq must reproduce the joint law;
    # truncating: lstsq's rcond (eps*k) cuts singular directions, triangular solve is undefined;
    # in between nobody can predict which directions lstsq keeps -> not judged (counted).
    regime = "regular" if ratio > 1e-11 else ("truncating" if ratio < 1e-17 else "grey")
    if top == 0:
        regime = "truncating"
    S_def = regime == "truncating"
    condS = 1.0 / ratio if ratio > 0 else float("inf")
    C.obs["singular_cases"] = int(S_def)
    C.obs["revert_grey_skipped"] = int(regime == "grey")
    solvers = []
    if regime == "regular":
        solvers = [("lstsq", linalg.lstsq_svd), ("triu", linalg.solve_triu)]
    elif regime == "truncating":
        solvers = [("lstsq", linalg.lstsq_svd)]
    Pd = np.sqrt(np.maximum(np.diag(mpl.F(P)), 0.0))
    Sd = np.sqrt(np.maximum(np.diag(mpl.F(Sy_ref)), 0.0))
    cross_ref = mpl.mm(P, G.T)
    for sname, sfun in solvers:
        obsd, bw = cond.revert(rv, solve_triu=sfun)
        om, oL = extract.normal_sqrt_dense(obsd)
        tol_r = TOL + (0.0 if not math.isfinite(condS) else condS * 1e-14)
        sub = _Cmp({**tags, "solve": sname, "lstsq_truncates": S_def, "prior_zero": P_zero, "dup_rows": case["dup_rows"]})
        sub.mean("revert_observed", om, my_ref, bound_y)
        sub.cov("revert_observed", oL @ oL.T, Sy_ref)
        Gbw, xibw, Lbw = _ref_cond(fact, bw, d)
        omp, oLp = mpl.M(om), mpl.M(oL)
        Syg = _cov_from([oLp])
        mx = mpl.mm(Gbw, omp) + xibw
        bound_x = mpl.mm(_absmp(Gbw), _absmp(omp)) + _absmp(xibw) + mpl.M(Pd) + _absmp(m)
        sub.mean("revert_joint_x", mpl.F(mx), m, bound_x, tol=tol_r)
        cxx = mpl.mm(Gbw, Syg, Gbw.T) + _cov_from([Lbw])
        sub.cov("revert_joint_xx", mpl.F(cxx), P, tol=tol_r)
        cxy = mpl.mm(Gbw, Syg)
        sub.cov("revert_joint_xy", mpl.F(cxy), cross_ref, tol=tol_r, di=Pd, dj=Sd)
        C.viols += sub.viols
        C.obs["ops_compared"] += sub.obs["ops_compared"]
        C.obs["revert_joint_checks"] = C.obs.get("revert_joint_checks", 0) + 1
        for kk, vv in sub.worst.items():
            C.worst[kk + "_" + sname] = max(C.worst.get(kk + "_" + sname, 0.0), vv)

    # --- bayes-rule composites (non-singular S only) ------------------------------------------------
    data_nd = r.normal(size=(k, d))
    data_tree = [jnp.asarray(data_nd[i]) for i in range(k)]
    y = mpl.M(data_nd.reshape(-1))
    if regime == "regular" and condS < 1e4:
        Sinv_r = mpl.solve(Sy_ref, y - my_ref)
        post_m = m + mpl.mm(cross_ref, Sinv_r)
        KT = mpl.solve(Sy_ref, cross_ref.T)
        post_P = P - mpl.mm(cross_ref, KT)
        tol_b = TOL + condS**2 * 1e-14
        upd = cond.bayes_rule_tree(data_tree, rv, solve_triu=linalg.solve_triu)
        um, uL = extract.normal_sqrt_dense(upd)
        C.mean("bayes_rule", um, post_m, _absmp(m) + mpl.M(Pd) + _absmp(post_m), tol=tol_b)
        C.cov("bayes_rule", uL @ uL.T, post_P, tol=tol_b, di=Pd, dj=Pd)
        ld, maha = mpl.logdet_and_maha(Sy_ref, y - my_ref)
        lp_ref = float(-(maha + ld + ky * mpl.mp.log(2 * mpl.mp.pi)) / 2)
        lp, upd2 = cond.bayes_rule_and_logpdf_tree(data_tree, rv, solve_triu=linalg.solve_triu)
        C.scalar("bayes_logpdf", lp, lp_ref, tol=tol_b, floor=max(1.0, abs(lp_ref)))
        rms, upd3 = cond.bayes_rule_and_residual_whitened_rms_tree(data_tree, rv, solve_triu=linalg.solve_triu)
        if fact == "blockdiag":
            rms_ref = []
            Sf, rf = Sy_ref, y - my_ref
            for kk in range(d):
                idx = list(range(kk, ky, d))
                _, mh = mpl.logdet_and_maha(Sf[np.ix_(idx, idx)], rf[idx])
                rms_ref.append(float(mpl.sqrt(mh / len(idx))))
        else:
            rms_ref = float(mpl.sqrt(maha / ky))
        C.scalar("bayes_rms", rms, rms_ref, tol=tol_b, floor=1e-300)

    # --- normal-distribution queries --------------------------------------------------------------
    std_ref = np.asarray([float(mpl.sqrt(P[i, i])) for i in range(P.shape[0])])
    std = rv.std
    if fact == "isotropic":
        got_std = np.repeat(np.asarray([float(s) for s in std]), d)
    else:
        got_std = np.stack([np.asarray(s, float).reshape(-1) for s in std]).reshape(-1)
    C._note("std", float(np.max(np.abs(got_std - std_ref) / np.where(std_ref > 0, std_ref, 1.0))), TOL)
    mvn_m, mvn_c = rv.to_multivariate_normal()
    C.mean("to_mvn", mvn_m, m, _absmp(m))
    C.cov("to_mvn", mvn_c, P)
    fac = np.exp(r.uniform(-8, 8, size=(d,))) if fact == "blockdiag" else np.exp(r.uniform(-8, 8))
    rs = rv.rescale_cholesky(jnp.asarray(fac))
    _, rL = extract.normal_sqrt_dense(rs)
    fvec = np.tile(np.asarray(fac).reshape(-1), n) if fact == "blockdiag" else np.full((n * d,), float(fac))
    fm = mpl.M(fvec)
    C.cov("rescale", rL @ rL.T, P * fm[:, None] * fm[None, :])
    idc = rv.identity_conditional()
    Gi, xii, Lqi = _ref_cond(fact, idc, d)
    if not (np.array_equal(mpl.F(Gi), np.eye(n * d)) and not np.any(mpl.F(xii)) and not np.any(mpl.F(Lqi))):
        C.viols.append(util.viol("identity_conditional", "identity_conditional is not (I, 0, 0)", tags=tags))
    C.obs["ops_compared"] += 1
    # to_derivative
    i_sel = int(r.integers(0, n))
    if fact == "isotropic":
        std_arg = jnp.asarray(float(r.uniform(0.1, 2.0)))
        std_vec = np.full((d,), float(std_arg))
    else:
        std_vec = r.uniform(0.1, 2.0, size=(d,))
        std_arg = jnp.asarray(std_vec)
    dm = rv.to_derivative(i_sel, std_arg)
    Gd, xid, Lqd = _ref_cond(fact, dm, d)
    E = np.zeros((d, n * d))
    E[np.arange(d), i_sel * d + np.arange(d)] = 1.0
    ok = np.array_equal(mpl.F(Gd), E) and not np.any(mpl.F(xid)) and np.allclose(mpl.F(_cov_from([Lqd])), np.diag(std_vec**2), rtol=1e-14, atol=0)
    if not ok:
        C.viols.append(util.viol("to_derivative", f"to_derivative({i_sel}) is not the selector with the given noise", tags=tags))
    C.obs["ops_compared"] += 1

    # logpdf / rms of the normal itself (non-singular factors only)
    if case["prior_kind"] in ("well", "nontri"):
        u_nd = mean + r.normal(size=(n, d)) * 0.5
        u_flat = {"dense": u_nd.reshape(-1), "isotropic": u_nd, "blockdiag": u_nd.T}[fact]
        ue = mpl.M(_embed_mean(fact, u_flat))
        ld, maha = mpl.logdet_and_maha(P, ue - m)
        lp_ref = float(-(maha + ld + n * d * mpl.mp.log(2 * mpl.mp.pi)) / 2)
        lp = rv.logpdf_flat(jnp.asarray(u_flat))
        C.scalar("logpdf", lp, lp_ref, tol=1e-8, floor=max(1.0, abs(lp_ref)))
        # the same Gaussian at an extreme but representable overall scale s: log N(m + s e; m, s^2 P) = log N(m + e; m, P) - N log s.
        # A determinant formed as a product of the Cholesky diagonal under/overflows long before its logarithm does (seed C08-s4).
        # exponent chosen so that the *product* of the N diagonal entries leaves the float64 range while every entry stays inside
        ex = float(r.choice([-1.0, 1.0])) * float(min(140, max(8, math.ceil(330 / (n * d)))))
        s_ = 10.0**ex
        rv_s = rv.rescale_cholesky(jnp.asarray(np.full((d,), s_)) if fact == "blockdiag" else jnp.asarray(s_))
        delta = u_nd - mean
        u_s = mean + s_ * delta
        u_s_flat = {"dense": u_s.reshape(-1), "isotropic": u_s, "blockdiag": u_s.T}[fact]
        lp_s = rv_s.logpdf_flat(jnp.asarray(u_s_flat))
        # the shifted point m + s e is only representable when s |e| is not swamped by |m|: the reference uses the point as formed
        ue_s = mpl.M(_embed_mean(fact, u_s_flat))
        ld_s, maha_s = mpl.logdet_and_maha(P * mpl.mp.mpf(10) ** (2 * int(ex)), ue_s - m)
        lp_s_ref = float(-(maha_s + ld_s + n * d * mpl.mp.log(2 * mpl.mp.pi)) / 2)
        if ex > 0 or float(np.max(np.abs(mean))) * 2.0**-52 < 1e-3 * s_ * float(np.min(np.abs(delta)) + 1e-300):
            C.scalar("logpdf_extreme_scale", lp_s, lp_s_ref, tol=1e-7, floor=max(1.0, abs(lp_s_ref)))
            C.obs["extreme_scale_logpdfs"] = C.obs.get("extreme_scale_logpdfs", 0) + 1
        if case["prior_kind"] == "well":
            rms = rv.residual_whitened_rms_flat(jnp.asarray(u_flat))
            if fact == "blockdiag":
                ref = []
                for kk in range(d):
                    idx = list(range(kk, n * d, d))
                    _, mh = mpl.logdet_and_maha(P[np.ix_(idx, idx)], (ue - m)[idx])
                    ref.append(float(mpl.sqrt(mh / n)))
            else:
                ref = float(mpl.sqrt(maha / (n * d)))
            C.scalar("rms", rms, ref, tol=1e-8, floor=1e-300)

    # --- vmapped variants agree with the loop ---------------------------------------------------------
    if case["prior_kind"] == "well" and case["noise_kind"] in ("well", "tiny"):
        rvs, conds = [rv], [cond]
        for _ in range(2):
            rvs.append(_mk_normal(fact, proto_n, r.normal(size=(n, d)), _gen_factor(r, fact, n, d, "well")))
            conds.append(_gen_cond(r, fact, example, n, k, d, "well", case["scaling"]))
        RV = jax.tree.map(lambda *xs: jnp.stack(xs), *rvs)
        CD = jax.tree.map(lambda *xs: jnp.stack(xs), *conds)
        batched = jax.vmap(lambda c, x: c.marginalise(x))(CD, RV)
        ob, bwb = jax.vmap(lambda c, x: c.revert(x, solve_triu=linalg.solve_triu))(CD, RV)
        for j in range(3):
            one = conds[j].marginalise(rvs[j])
            a, b = extract.normal_dense(one), extract.normal_dense(extract.tree_index(batched, j))
            C._note("vmap_marginalise", max(util.scaled_mean_err(b[0], a[0], np.diag(a[1])), util.scaled_cov_err(b[1], a[1])), 1e-11)
            o1, b1 = conds[j].revert(rvs[j], solve_triu=linalg.solve_triu)
            g1, g2 = extract.cond_dense(b1), extract.cond_dense(extract.tree_index(bwb, j))
            sc = np.maximum(np.abs(g1[0]), 1e-300)
            C._note("vmap_revert", float(np.max(np.abs(g1[0] - g2[0]) / (sc + np.max(sc) * 1e-3))), 1e-9)
        C.obs["vmap_cases"] = 1

    C.obs["cases"] = 1
    for kk, vv in C.worst.items():
        C.obs["max_" + kk] = vv
    sigs = []
    if (d > 1 or n > 1):
        sigs.append(f"{fact}|{n}|{k}|{d}|{case['prior_kind']}|{case['noise_kind']}|{case['scaling']}")
    worst = sorted(C.worst.items(), key=lambda kv: -kv[1])[:4]
    sample = {"shapes": [n, k, d], "kinds": tags, "revert_regime": regime, "sv_ratio_S_latent": ratio, "largest_deviations": worst}
    return {"violations": C.viols, "obs": C.obs, "sigs": sigs, "sample": sample}

"""C14 — state-space factorisations agree wherever theory says they must (metamorphic monitor).

One problem is sent through the dense, isotropic and block-diagonal models (and, for decoupled problems,
through d independent scalar dense solves); all results are embedded in the common dense layout and compared.
"""

import numpy as np

from pdv import configs, extract, poly, util
from pdv.refmodel import floors as floors_mod

ID = "C14"
LEVEL = "exploration"
RULE = (
    "kinds: (a) TS0 on arbitrary nonlinear polynomial problems: dense == isotropic in every calibration mode incl. the "
    "output scale; dense vs blockdiag means (uncalibrated, MLE), covariances (uncalibrated) and mean_d sigma_d^2 = "
    "sigma_dense^2; (b) TS1 on componentwise-decoupled problems: blockdiag == d independent scalar dense solves (all "
    "modes); (c) TS1 on scalar-Jacobian problems f = lambda(t) u + c(t): isotropic == dense (all modes); (d) adaptive "
    "dense/isotropic pairs: identical step counts and values. x three strategies x nu 1..6 x fixed grids. "
    "non-trivial = d>=2 and >=3 steps; distinct = (kind, strategy, calibration, nu, d)"
)
ASSUMPTIONS = [
    "two float64 results are compared: denominators use |mean| + std with stds floored at 1e-9 of the largest one",
    "blockdiag is not compared in dynamic mode nor in adaptive runs (not claimed by the statement)",
]
REQUIRED_OBS = {"pairs_compared": 60, "adaptive_pairs": 4, "decoupled_cases": 4, "scalar_jacobian_cases": 4}
TOL = 1e-6  # float-vs-float across factorisations: measured up to 8e-8 (rounding of tiny residuals, amplified)


def cases(tier, seed):
    rng = util.rng_for(ID, tier, seed)
    out = []
    n = 48 if tier == "quick" else 400
    kinds = ["ts0", "ts0", "decoupled", "scalar_jac", "adaptive"]
    for k in range(n):
        kind = kinds[k % len(kinds)]
        d = rng.randint(2, 3)
        nu = rng.randint(1, 6 if tier == "thorough" else 4)
        # small-residual regime (order 4-5, steps of 0.004..0.02: raw residuals of 1e-8..1e-13) in every other round of the
        # fixed-grid kinds: absolute thresholds / fallbacks inside one factorisation's calibration show only there (seed C14-s2)
        small = (k // len(kinds)) % 2 == 1 and kind in ("ts0", "decoupled")
        if small:
            nu = rng.randint(4, 5)
        if kind in ("ts0", "adaptive"):
            field, inits, t0 = poly.random_problem(rng, d=d, nblocks=1, num_coeffs=nu + 1, degree=rng.choice([2, 3]), nterms=3, time_dep=rng.random() < 0.5)
        elif kind == "decoupled":
            # f_k depends on u_k and t only
            terms = []
            for i in range(d):
                ti = []
                for _ in range(rng.randint(1, 2)):
                    ex = [0] * (d + 1)
                    ex[i] = rng.randint(0, 2)
                    ex[-1] = rng.randint(0, 1)
                    ti.append((poly.small_rational(rng) / 2, tuple(ex)))
                ex = [0] * (d + 1)
                ex[i] = 1
                ti.append((-poly.Fraction(rng.randint(1, 3), 2), tuple(ex)))
                ex = [0] * (d + 1)
                ex[i] = 2
                ti.append((poly.Fraction(1, 5), tuple(ex)))
                terms.append(ti)
            field = poly.PolyField(d, 1, terms)
            inits = [[poly.small_rational(rng) for _ in range(d)]]
            t0 = poly.small_rational(rng, allow_zero=True)
            if not poly.nondegenerate(field, inits, t0, nu + 1):
                inits = [[x + poly.Fraction(1, 7) for x in inits[0]]]
        else:
            # f = (a + b t) u + (c_k + e_k t): Jacobian is a multiple of the identity
            a, b = poly.small_rational(rng), poly.small_rational(rng, allow_zero=True)
            terms = []
            for i in range(d):
                ex1 = [0] * (d + 1); ex1[i] = 1
                ex2 = [0] * (d + 1); ex2[i] = 1; ex2[-1] = 1
                ex3 = [0] * (d + 1)
                ex4 = [0] * (d + 1); ex4[-1] = 1
                terms.append([(-abs(a), tuple(ex1)), (b / 2, tuple(ex2)), (poly.small_rational(rng), tuple(ex3)), (poly.small_rational(rng), tuple(ex4))])
            field = poly.PolyField(d, 1, terms)
            inits = [[poly.small_rational(rng) for _ in range(d)]]
            t0 = poly.small_rational(rng, allow_zero=True)
        nsteps = rng.randint(3, 7)
        out.append(
            {
                "id": f"{kind}-{k}", "kind": kind, "nu": nu, "strategy": rng.choice(["filter", "fixedinterval", "fixedpoint"]) if kind != "adaptive" else rng.choice(["filter", "fixedpoint"]),
                "cal": ["mle", "dynamic"][(k // (2 * len(kinds))) % 2] if small else rng.choice(configs.CALS),
                "steps": [configs.loguniform(rng, 0.004, 0.02) if small else configs.loguniform(rng, 0.02, 0.3) for _ in range(nsteps)],
                "field": field.to_json(), "inits": [[str(x) for x in b] for b in inits], "t0": str(t0),
                "tol": 10 ** rng.uniform(-6, -3), "relin": rng.random() < 0.5, "cost": 6.0,
                # observation damping is an argument of every solve routine and enters each factorisation's linearisation
                # separately (seed C14-s3: the isotropic first-order linearisation dropped it); non-zero in every third case
                "damp": [0.0, 0.0, 10 ** rng.uniform(-3, -1)][(k // len(kinds)) % 3],
            }
        )
    return out


def _ulp_perturbed(case, problem, seed):
    """The same problem with every initial value and step moved by one unit roundoff (random signs): re-solving it with
    the SAME factorisation measures how strongly float64 rounding is amplified on this problem (its conditioning)."""
    r = np.random.default_rng(seed)
    u = poly.Fraction(1, 2**52)
    inits = [[str(poly.Fraction(x) * (1 + int(r.choice([-1, 1])) * u)) for x in blk] for blk in problem["inits"]]
    steps = [float(h) * (1.0 + float(r.choice([-1.0, 1.0])) * 2.0**-52) for h in case["steps"]]
    # the base output scale moved by one ulp re-rounds every covariance factor along the way (with zeroth-order
    # linearisation and no calibration the covariances do not depend on the initial values at all)
    return {**case, "steps": steps, "base_p": 1.0 + float(r.choice([-1.0, 1.0])) * 2.0**-52, "tc_ulp_seed": int(seed)}, {**problem, "inits": inits}


def _solve(case, fact, problem, *, ts, strategy=None):
    import jax
    import jax.numpy as jnp
    from probdiffeq import ivpsolve

    strategy = strategy or case["strategy"]
    cfg = configs.build(fact=fact, strategy=strategy, cal=case["cal"], ts=ts, nu=case["nu"], problem=problem, relinearize=case["relin"],
                        base_scale=case.get("base_p"), tc_ulp_seed=case.get("tc_ulp_seed"))
    t0 = cfg["prob"]["t0"]
    grid = np.concatenate([[t0], t0 + np.cumsum(case["steps"])])
    if case["kind"] == "adaptive":
        sol = jax.jit(ivpsolve.solve_adaptive_save_at(solver=cfg["solver"], error=cfg["error"], while_loop=configs.bounded_while()))(
            cfg["prior"], jnp.asarray(grid), atol=case["tol"], rtol=case["tol"], dt0=0.1, damp=case.get("damp", 0.0))
    else:
        import warnings

        with warnings.catch_warnings():
            warnings.simplefilter("ignore")  # fixed-point on a fixed grid warns; the comparison is still meaningful
            sol = jax.jit(ivpsolve.solve_fixed_grid(solver=cfg["solver"]))(cfg["prior"], grid=jnp.asarray(grid), damp=case.get("damp", 0.0))
    T = len(grid)
    if case["kind"] == "adaptive" and not configs.adaptive_reached_end(sol, grid[-1]):
        raise util.Inconclusive("adaptive run hit its logical step budget")
    marg = [extract.normal_dense(extract.tree_index(sol.u, i)) for i in range(T)]
    scale = np.asarray(sol.output_scale, float)
    return marg, scale, np.asarray(sol.num_steps), grid


def _cmp(a, b, tol, *, means=True, covs=True, floors=None):
    """Both sides are float64 results: denominators use stds floored at 1e-7 of the prior's process-noise scale."""
    worst = 0.0
    for i, ((ma, Pa), (mb, Pb)) in enumerate(zip(a, b)):
        sd = np.sqrt(np.maximum(np.diag(Pb), 0.0))
        if floors is not None:
            sd = np.maximum(sd, floors[i] * max(1.0, 0.0))
        if not (np.all(np.isfinite(ma)) and np.all(np.isfinite(Pa))):
            return float("inf")
        if means:
            worst = max(worst, float(np.max(np.abs(ma - mb) / (np.abs(mb) + sd + 1e-300))))
        if covs:
            den = np.outer(sd, sd)
            den = np.where(den > 0, den, 1.0)
            worst = max(worst, float(np.max(np.abs(Pa - Pb) / den)))
    return worst


def run_case(case):
    kind, cal, nu = case["kind"], case["cal"], case["nu"]
    problem = {"name": "poly", "field": case["field"], "inits": case["inits"], "t0": case["t0"]}
    field = poly.PolyField.from_json(case["field"])
    d = field.d
    viols, obs = [], {"cases": 1}
    tags = {"kind": kind, "cal": cal, "strategy": case["strategy"], "nu": nu}
    # float-vs-float across factorisations. A deviation above the tight tolerance is judged against the *measured*
    # conditioning of the problem: the reference-side factorisation is re-run on the same problem with all inputs moved by
    # one unit roundoff; two correct float64 implementations cannot agree better than a modest multiple of that change
    # (rounding amplification reaches 1e-3 at nu = 6 for smoothers, while it is 1e-10 for most problems of the same order).
    tol = TOL
    sens_cache = {}

    def measured(key, fn):
        if key not in sens_cache:
            sens_cache[key] = fn()
            obs["conditioning_measured"] = obs.get("conditioning_measured", 0) + 1
            obs["max_measured_sensitivity"] = max(obs.get("max_measured_sensitivity", 0.0), max(sens_cache[key].values()))
        return sens_cache[key]

    def note(name, val, limit=None, sens=None):
        limit = tol if limit is None else limit
        obs["pairs_compared"] = obs.get("pairs_compared", 0) + 1
        obs["max_dev_" + name] = max(obs.get("max_dev_" + name, 0.0), val)
        if not val <= limit and sens is not None and np.isfinite(val):
            key, fn, which = sens
            limit = limit + util.COND_FACTOR * measured(key, fn)[which]
            obs["judged_by_measured_conditioning"] = obs.get("judged_by_measured_conditioning", 0) + 1
        if not val <= limit:
            viols.append(util.viol(name, f"{name}: deviation {val:.3g} (tolerance {limit:.2g})", tags=tags))

    if kind in ("ts0", "adaptive"):
        dn, sd, nd, grid = _solve(case, "dense", problem, ts="ts0")
        sc = float(np.max(sd)) if cal != "solver" else 1.0
        fl = floors_mod.floors_for_grid(nu, d, grid, scale=sc)
        if max(float(np.max(np.abs(m))) for m, _ in dn) > 1e4 or not all(np.all(np.isfinite(m)) for m, _ in dn):
            return {"violations": [], "obs": {"cases": 1, "exploded_skipped": 1}, "sigs": []}
        iso, si, ni, _ = _solve(case, "isotropic", problem, ts="ts0")
        if kind == "adaptive":
            obs["adaptive_pairs"] = 1
            if not np.array_equal(nd, ni):
                viols.append(util.viol("adaptive_step_counts", f"dense took {nd.tolist()} steps, isotropic {ni.tolist()}", tags=tags))
                return {"violations": viols, "obs": obs, "sigs": []}
        def sens_dense():
            out = {"all": 0.0, "means": 0.0, "covs": 0.0, "scale": 0.0}
            for sd_ in (1, 2):
                cp, pp = _ulp_perturbed(case, problem, case.get("seedp", 0) + sd_)
                dnp, sdp, ndp, _ = _solve(cp, "dense", pp, ts="ts0")
                if kind == "adaptive" and not np.array_equal(ndp, nd):
                    continue  # a different step sequence measures something else
                out["all"] = max(out["all"], _cmp(dnp, dn, tol, floors=fl))
                out["means"] = max(out["means"], _cmp(dnp, dn, tol, covs=False, floors=fl))
                out["covs"] = max(out["covs"], _cmp(dnp, dn, tol, means=False, floors=fl))
                out["scale"] = max(out["scale"], util.rel_err(sdp, sd, floor=1e-300))
            return out

        note("dense_vs_isotropic", _cmp(iso, dn, tol, floors=fl), sens=("dense", sens_dense, "all"))
        note("dense_vs_isotropic_scale", util.rel_err(si, sd, floor=1e-300), limit=max(tol, 1e-6), sens=("dense", sens_dense, "scale"))
        if kind == "ts0" and cal != "dynamic":
            bd, sb, _, _ = _solve(case, "blockdiag", problem, ts="ts0")
            note("dense_vs_blockdiag_means", _cmp(bd, dn, tol, covs=False, floors=fl), sens=("dense", sens_dense, "means"))
            if cal == "solver":
                note("dense_vs_blockdiag_covs", _cmp(bd, dn, tol, means=False, floors=fl), sens=("dense", sens_dense, "covs"))
            else:
                note("blockdiag_mle_scale_split", util.rel_err(np.sqrt(np.mean(sb**2, axis=-1)), sd, floor=1e-300), limit=max(tol, 1e-6), sens=("dense", sens_dense, "scale"))
    elif kind == "decoupled":
        obs["decoupled_cases"] = 1
        bd, sb, _, grid = _solve(case, "blockdiag", problem, ts="ts1")
        if max(float(np.max(np.abs(m))) for m, _ in bd) > 1e4:
            return {"violations": [], "obs": {"cases": 1, "exploded_skipped": 1}, "sigs": []}
        n = nu + 1
        for k in range(d):
            # scalar problem k: variables (u_k, t)
            terms = [[(c, (ex[k], ex[-1])) for c, ex in field.terms[k]]]
            fk = poly.PolyField(1, 1, terms)
            pk = {"name": "poly", "field": fk.to_json(), "inits": [[case["inits"][0][k]]], "t0": case["t0"]}
            sk, ssk, _, _ = _solve(case, "dense", pk, ts="ts1")
            idx = np.arange(n) * d + k
            sub = [(m[idx], P[np.ix_(idx, idx)]) for m, P in bd]
            sck = float(np.max(ssk)) if cal != "solver" else 1.0
            flk = floors_mod.floors_for_grid(nu, 1, grid, scale=sck)

            def sens_scalar(pk=pk, sk=sk, ssk=ssk, flk=flk):
                out = {"all": 0.0, "scale": 0.0}
                for sd_ in (1, 2):
                    cp, pp = _ulp_perturbed(case, pk, case.get("seedp", 0) + sd_)
                    skp, sskp, _, _ = _solve(cp, "dense", pp, ts="ts1")
                    out["all"] = max(out["all"], _cmp(skp, sk, tol, floors=flk))
                    out["scale"] = max(out["scale"], util.rel_err(sskp, ssk, floor=1e-300))
                return out

            note("blockdiag_vs_scalar_dense", _cmp(sub, sk, tol, floors=flk), sens=(f"scalar{k}", sens_scalar, "all"))
            sbk = sb[..., k] if sb.ndim > 1 else sb
            note("blockdiag_vs_scalar_dense_scale", util.rel_err(sbk, ssk, floor=1e-300), limit=max(tol, 1e-6), sens=(f"scalar{k}", sens_scalar, "scale"))
    else:
        obs["scalar_jacobian_cases"] = 1
        dn, sd, _, grid = _solve(case, "dense", problem, ts="ts1")
        if max(float(np.max(np.abs(m))) for m, _ in dn) > 1e4:
            return {"violations": [], "obs": {"cases": 1, "exploded_skipped": 1}, "sigs": []}
        iso, si, _, _ = _solve(case, "isotropic", problem, ts="ts1")
        fl = floors_mod.floors_for_grid(nu, d, grid, scale=float(np.max(sd)) if cal != "solver" else 1.0)

        def sens_dense1():
            out = {"all": 0.0, "scale": 0.0}
            for sd_ in (1, 2):
                cp, pp = _ulp_perturbed(case, problem, case.get("seedp", 0) + sd_)
                dnp, sdp, _, _ = _solve(cp, "dense", pp, ts="ts1")
                out["all"] = max(out["all"], _cmp(dnp, dn, tol, floors=fl))
                out["scale"] = max(out["scale"], util.rel_err(sdp, sd, floor=1e-300))
            return out

        note("ts1_dense_vs_isotropic", _cmp(iso, dn, tol, floors=fl), sens=("dense1", sens_dense1, "all"))
        note("ts1_dense_vs_isotropic_scale", util.rel_err(si, sd, floor=1e-300), limit=max(tol, 1e-6), sens=("dense1", sens_dense1, "scale"))
    sigs = [f"{kind}|{case['strategy']}|{cal}|{nu}|{d}"] if len(case["steps"]) >= 3 else []
    sample = {"config": tags, "field": field.describe(), "deviations": {k: v for k, v in obs.items() if k.startswith("max_dev")}}
    return {"violations": viols, "obs": obs, "sigs": sigs, "sample": sample}

"""C13 — posterior samples are exact affine images of the normal draws.

``probdiffeq.backend.random.normal`` is interposed: every base draw of ``sample`` is replaced by a tape
chosen by the monitor (zeros, each unit vector, random vectors) and every call is logged. The responses
define the linear map from draws to samples, whose Gram matrix must be the joint smoothing covariance
(assembled in 50 digits from the raw backward kernels).
"""

import math

import numpy as np

from pdv import configs, extract, poly, util
from pdv.refmodel import kalman, mpl

ID = "C13"
LEVEL = "exploration"
RULE = (
    "cases = smoother posterior (fixed-interval on fixed grid: non-unit kernel scalings and non-zero backward offsets; "
    "fixed-point with checkpoints) x factorisation x calibration x nu x pytree/flat state, and prior Markov sequences on a "
    "grid; tapes = zeros, every unit draw, two random draws; plus shapes (), (n,), (n,m) with the real generator. "
    "non-trivial = d>1 or nu>1 with >=3 output times; distinct = (source, factorisation, calibration, nu, d, #times)"
)
ASSUMPTIONS = [
    "under jax.disable_jit the scan inside sample() runs as a Python loop, so the interposer sees one call per draw",
    "joint smoothing covariance from pdv/extract.markov_joint_mp; closed-form IWP joint for prior sequences",
]
REQUIRED_OBS = {"zero_tapes": 10, "unit_tapes": 100, "gram_checks": 10, "shape_checks": 10, "pytree_sample_cases": 8}
TOL = 1e-8


def cases(tier, seed):
    rng = util.rng_for(ID, tier, seed)
    out = []
    n = 36 if tier == "quick" else 300
    for k in range(n):
        d = rng.randint(1, 3)
        nu = rng.randint(1, 3)
        field, inits, t0 = poly.random_problem(rng, d=d, nblocks=1, num_coeffs=nu + 1, degree=2, nterms=2, time_dep=rng.random() < 0.5)
        out.append(
            {
                "id": f"c13-{k}", "source": ["fixedinterval", "fixedpoint", "prior"][k % 3], "fact": configs.FACTS[(k // 3) % 3],
                "cal": rng.choice(configs.CALS), "ts": rng.choice(["ts0", "ts1"]), "nu": nu, "T": rng.randint(3, 5),
                "init": rng.choice(["exact", "inexact"]), "struct": (2 * ((k // 9) % 4) + (k % 3) + seed) % 8, "span": rng.uniform(0.2, 0.8),
                "field": field.to_json(), "inits": [[str(x) for x in b] for b in inits], "t0": str(t0),
                "base": rng.choice([None, 0.5, 3.0]), "seedc": rng.randrange(10**9), "cost": 6.0,
                # reverse-time solves (decreasing grid) are supported; their preconditioners dt^k/k! change sign with k, which
                # nothing on an increasing grid exercises (seed C13-s3 took |.| of the output scaling in the mean)
                "reverse_time": k % 3 == 0 and (k // 9) % 2 == 1,
                "prior_reverse": k % 3 == 2 and (k // 3) % 2 == 1,
            }
        )
    return out


class _Tape:
    """Interposer for backend.random.normal: returns tape entries in call order and logs (shape)."""

    def __init__(self):
        self.calls = []
        self.tape = None

    def __enter__(self):
        from probdiffeq.backend import random as brandom

        self._mod, self._orig = brandom, brandom.normal

        def fake(key, /, shape, dtype=None):
            import jax.numpy as jnp

            i = len(self.calls)
            self.calls.append(tuple(shape))
            size = int(np.prod(shape)) if len(shape) else 1
            if self.tape is None:
                vals = np.zeros(size)
            else:
                vals = self.tape[self.offset : self.offset + size]
                if len(vals) < size:
                    vals = np.concatenate([vals, np.zeros(size - len(vals))])
            self.offset += size
            return jnp.asarray(vals.reshape(shape))

        brandom.normal = fake
        return self

    def __exit__(self, *exc):
        self._mod.normal = self._orig

    def run(self, fn, tape):
        self.calls, self.tape, self.offset = [], tape, 0
        return fn()


def _flat_sample(sample_tree, d, n):
    """Sample pytree (list over coefficients of arrays [T, ...]) -> array [T, n*d] in the dense layout."""
    import jax

    leaves = [np.asarray(jax.flatten_util.ravel_pytree(jax.tree.map(lambda x: x, c))[0]) for c in sample_tree]
    T = np.asarray(jax.tree.leaves(sample_tree[0])[0]).shape[0]
    out = np.zeros((T, n * d))
    for j, c in enumerate(sample_tree):
        # each coefficient: pytree with leading time axis; ravel per time
        per_time = [np.asarray(jax.flatten_util.ravel_pytree(jax.tree.map(lambda x, i=i: x[i], c))[0]) for i in range(T)]
        out[:, j * d : (j + 1) * d] = np.stack(per_time)
    return out


def _pytree_part(case, viols, obs, tags):
    """A nested-pytree problem (incl. matrix- and tensor-valued leaves) through the public pipeline; every (factorisation,
    structure) pair is visited by the case plan."""
    import jax
    import jax.flatten_util
    import jax.numpy as jnp

    from pdv.props import c15

    tmpl = c15._structures(case["struct"])
    flat0, unravel = jax.flatten_util.ravel_pytree(tmpl)
    dd = flat0.size
    r = np.random.default_rng(case["seedc"] + 7)
    A, B = c15._field_params(r, dd)
    f = c15._vf_flat(A, B)
    u0 = r.uniform(0.2, 1.0, size=dd)
    sub = {"fact": case["fact"], "ts": case["ts"], "cal": case["cal"], "strategy": "smoother", "tol": 1e-3,
           "routine": "fixed" if case["source"] == "fixedinterval" else "adaptive"}
    pts = np.asarray([0.0, 0.1, 0.15, 0.3, 0.5])
    T = len(pts)

    def rav(x):
        return jax.flatten_util.ravel_pytree(x)[0]

    sol = c15._solve(sub, lambda u, *, t: unravel(f(rav(u), t=t)), unravel(jnp.asarray(u0)), container=c15.Taylor4, save_at=pts, grid=pts)
    post = sol.solution_full.posterior
    ptags = {**tags, "struct": case["struct"], "pytree": True}
    obs["pytree_sample_cases"] = 1
    with jax.disable_jit(), _Tape() as tape:
        s0 = tape.run(lambda: post.sample(jax.random.PRNGKey(0), shape=()), None)
    want = jax.tree.structure(tmpl)
    ok = True
    for j, (coeff, mean_c) in enumerate(zip(s0, sol.u.mean)):
        if jax.tree.structure(coeff) != want:
            viols.append(util.viol("sample_structure", f"coefficient {j} of the sample has structure {jax.tree.structure(coeff)}, the caller's is {want}", tags=ptags))
            ok = False
            break
        for leaf, ref, m in zip(jax.tree.leaves(coeff), jax.tree.leaves(tmpl), jax.tree.leaves(mean_c)):
            if tuple(leaf.shape) != (T, *ref.shape):
                viols.append(util.viol("sample_shape", f"pytree state: sample leaf shape {leaf.shape}, expected {(T, *ref.shape)}", tags=ptags))
                ok = False
                continue
            dev = float(np.max(np.abs(np.asarray(leaf) - np.asarray(m)) / (np.abs(np.asarray(m)) + 1e-6)))
            obs["max_pytree_zero_draw_dev"] = max(obs.get("max_pytree_zero_draw_dev", 0.0), dev)
            if not dev <= 1e-7:
                viols.append(util.viol("zero_draws_equal_means", f"pytree state (structure {case['struct']}): with all draws zero, coefficient {j} deviates from the returned means by {dev:.3g}", tags=ptags))
                ok = False
    if ok:
        for shape in ((2,), (2, 3)):
            smp = post.sample(jax.random.PRNGKey(5), shape=shape)
            obs["shape_checks"] = obs.get("shape_checks", 0) + 1
            for coeff in smp:
                for leaf, ref in zip(jax.tree.leaves(coeff), jax.tree.leaves(tmpl)):
                    if tuple(leaf.shape) != (*shape, T, *ref.shape) or not np.all(np.isfinite(np.asarray(leaf))):
                        viols.append(util.viol("sample_shape", f"pytree state, shape={shape}: leaf shape {leaf.shape}, expected {(*shape, T, *ref.shape)}", tags=ptags))
                        break


def run_case(case):
    import jax
    import jax.flatten_util
    import jax.numpy as jnp
    from probdiffeq import ivpsolve, probdiffeq

    fact, nu, T = case["fact"], case["nu"], case["T"]
    n = nu + 1
    problem = {"name": "poly", "field": case["field"], "inits": case["inits"], "t0": case["t0"]}
    r = np.random.default_rng(case["seedc"])
    viols, obs = [], {"cases": 1}
    tags = {k: case[k] for k in ("source", "fact", "cal", "nu")}
    if case["source"] == "prior":
        ssm = configs.ssm_of(fact)
        prob = configs.problem_of(problem)
        d = prob["d"]
        tc = configs.tcoeffs_of(prob, n)
        base = case["base"]
        bs = None if base is None else (jnp.asarray(base) if fact == "isotropic" else jnp.full((d,), base))
        prior = ssm.prior_wiener_integrated(tc, is_exact=False, inexact_eps=0.3, output_scale=bs)
        t0 = prob["t0"]
        grid = np.concatenate([[t0], t0 + np.sort(r.uniform(0.1, 1.0, size=T - 1)) * case["span"]])
        rev = bool(case.get("prior_reverse"))
        seq = probdiffeq.MarkovSequence.from_grid(prior, grid=jnp.asarray(grid), reverse=rev)
        model = kalman.Model(field=prob["field"], fact=fact, ts="ts0", nu=nu, d=d, base=base)
        m0, L0 = extract.normal_mp(prior.init, d)
        if not rev:
            # reference joint: x_0 ~ N(m0, P0), x_{k+1} = Phi(dt_k) x_k + N(0, Q(dt_k))
            means = [m0]
            cov = {(0, 0): mpl.mm(L0, L0.T)}
            for k in range(1, T):
                Phi, Q = model.transition(grid[k] - grid[k - 1])
                means.append(mpl.mm(Phi, means[k - 1]))
                cov[(k, k)] = mpl.mm(Phi, cov[(k - 1, k - 1)], Phi.T) + Q
                for j in range(k):
                    cov[(j, k)] = mpl.mm(cov[(j, k - 1)], Phi.T)
        else:
            # reversed factorisation: the given marginal sits at the last grid point and conditional k (the transition over
            # the k-th interval [grid[k], grid[k+1]]) maps x_{k+1} to x_k (seed C13-s4 paired the intervals the wrong way round)
            obs["prior_reverse_cases"] = 1
            means = [None] * T
            means[T - 1] = m0
            cov = {(T - 1, T - 1): mpl.mm(L0, L0.T)}
            for k in range(T - 2, -1, -1):
                Phi, Q = model.transition(grid[k + 1] - grid[k])
                means[k] = mpl.mm(Phi, means[k + 1])
                cov[(k, k)] = mpl.mm(Phi, cov[(k + 1, k + 1)], Phi.T) + Q
                for j in range(k + 1, T):
                    cov[(k, j)] = mpl.mm(Phi, cov[(k + 1, j)])
        sample_fn = lambda key=jax.random.PRNGKey(0), shape=(): seq.sample(key, shape=shape)  # noqa: E731
        mean_ref = np.stack([mpl.F(m) for m in means])
    else:
        cfg = configs.build(fact=fact, strategy=case["source"], cal=case["cal"], ts=case["ts"], nu=nu, problem=problem,
                            init=case["init"], inexact_eps=1e-2, base_scale=case["base"])
        d = cfg["d"]
        t0 = cfg["prob"]["t0"]
        grid = np.concatenate([[t0], t0 + np.sort(r.uniform(0.1, 1.0, size=T - 1)) * case["span"]])
        if case.get("reverse_time") and case["source"] == "fixedinterval":
            grid = 2 * t0 - grid
            obs["reverse_time_cases"] = 1
        if case["source"] == "fixedinterval":
            sol = jax.jit(ivpsolve.solve_fixed_grid(solver=cfg["solver"]))(cfg["prior"], grid=jnp.asarray(grid))
        else:
            sol = jax.jit(ivpsolve.solve_adaptive_save_at(solver=cfg["solver"], error=cfg["error"], while_loop=configs.bounded_while()))(
                cfg["prior"], jnp.asarray(grid), atol=1e-3, rtol=1e-3, dt0=0.05)
        if not configs.adaptive_reached_end(sol, grid[-1]):
            raise util.Inconclusive("adaptive run hit its logical step budget")
        if not np.all(np.isfinite(np.asarray(sol.u.mean_flat))) or float(np.max(np.abs(np.asarray(sol.u.mean_flat)))) > 1e4:
            return {"violations": [], "obs": {"cases": 1, "exploded_skipped": 1}, "sigs": []}
        post = sol.solution_full.posterior
        # mechanism tag of finding D14 as seen through sampling: a backward kernel whose Taylor preconditioner belongs to a
        # sub-interval far shorter than the others (1/T(dt) ~ k!/dt^(k+1/2): implied dt from the largest entry)
        tl = np.abs(np.asarray(post.conditional.to_latent, float)).reshape(T - 1, -1)
        dts = (math.factorial(nu) / np.maximum(np.max(tl, axis=1), 1e-300)) ** (1.0 / (nu + 0.5))
        tags["tiny_interpolation_subinterval"] = bool(case["source"] == "fixedpoint" and float(np.min(dts)) < max(1e-4, 1e-2 * float(np.median(dts))))
        obs["tiny_subinterval_cases"] = int(tags["tiny_interpolation_subinterval"])
        means, cov = extract.markov_joint_mp(post, d)
        sample_fn = lambda key=jax.random.PRNGKey(0), shape=(): post.sample(key, shape=shape)  # noqa: E731
        mean_ref = np.stack([extract.normal_dense(extract.tree_index(sol.u, i))[0] for i in range(T)])
    N = n * d
    # joint covariance over all times and coefficients
    Pj = mpl.zeros(T * N, T * N)
    for (a, b), v in cov.items():
        Pj[a * N : (a + 1) * N, b * N : (b + 1) * N] = v
        Pj[b * N : (b + 1) * N, a * N : (a + 1) * N] = v.T
    Pj = mpl.F(Pj)

    with jax.disable_jit(), _Tape() as tape:
        s0 = _flat_sample(tape.run(sample_fn, None), d, n)
        calls0 = list(tape.calls)
        total = sum(int(np.prod(c)) if len(c) else 1 for c in calls0)
        obs["zero_tapes"] = 1
        obs["draws_requested"] = total
        # (1) zero draws -> smoothing means at every output time
        scale = np.abs(mean_ref) + np.sqrt(np.maximum(np.diag(Pj), 0)).reshape(T, N) + 1e-300
        e0 = float(np.max(np.abs(s0 - mean_ref) / scale))
        obs["max_zero_draw_dev"] = e0
        if not e0 <= TOL:
            viols.append(util.viol("zero_draws_equal_means", f"with all draws zero the sample deviates from the smoothing means by {e0:.3g} (scaled)", tags=tags,
                                   witness={"sample": s0, "means": mean_ref}))
        # (2) unit draws -> linear map B
        if len(calls0) != T:
            viols.append(util.viol("draw_calls", f"{len(calls0)} normal() calls for {T} time points: {calls0}", tags=tags))
        B = np.zeros((T * N, total))
        for j in range(total):
            # a large draw (1e5 sigma) keeps the difference sj - s0 free of cancellation; the map is affine
            e = np.zeros(total)
            e[j] = 1e5
            sj = _flat_sample(tape.run(sample_fn, e), d, n)
            B[:, j] = (sj - s0).reshape(-1) / 1e5
            obs["unit_tapes"] = obs.get("unit_tapes", 0) + 1
        G = B @ B.T
        dd = np.sqrt(np.maximum(np.diag(Pj), 0))
        # exactly observed coefficients have variance ~1e-34 (rounding): floor the denominators well below any
        # genuine standard deviation (nu<=3, steps >= 0.02: genuine ratios stay above 1e-7)
        dd = np.maximum(dd, 1e-9 * float(np.max(dd)))
        eg = float(np.max(np.abs(G - Pj) / np.outer(dd, dd)))
        obs["gram_checks"] = 1
        obs["max_gram_dev"] = eg
        if not eg <= 1e-7:
            viols.append(util.viol("gram_is_joint_covariance", f"Gram matrix of the draw-to-sample map deviates from the joint covariance by {eg:.3g} (scaled)", tags=tags,
                                   witness={"diag_gram": np.diag(G), "diag_cov": np.diag(Pj), "draw_shapes": calls0}))
        # (3) affinity on random draws
        a, b = r.normal(size=total), r.normal(size=total)
        sa = _flat_sample(tape.run(sample_fn, a), d, n)
        sab = _flat_sample(tape.run(sample_fn, 2.0 * a - 0.5 * b), d, n)
        pred = s0.reshape(-1) + B @ (2.0 * a - 0.5 * b)
        # scale: the terms of the prediction, not the prediction (which may cancel to ~0 in a component)
        coef = 2.0 * a - 0.5 * b
        ea = float(np.max(np.abs(sab.reshape(-1) - pred) / (np.abs(s0.reshape(-1)) + np.abs(B) @ np.abs(coef) + np.tile(dd, 1) + 1e-300)))
        obs["max_affinity_dev"] = ea
        tol_a = 1e-7
        if ea > tol_a:
            # measured conditioning of the draw-to-sample map at this point: the same draws moved by one unit roundoff
            sgn = np.where(r.random(size=total) < 0.5, -1.0, 1.0)
            sab_u = _flat_sample(tape.run(sample_fn, coef * (1.0 + sgn * 2.0**-52)), d, n)
            sens = float(np.max(np.abs(sab_u.reshape(-1) - sab.reshape(-1)) / (np.abs(s0.reshape(-1)) + np.abs(B) @ np.abs(coef) + np.tile(dd, 1) + 1e-300)))
            obs["conditioning_measured"] = 1
            obs["max_measured_sensitivity"] = sens
            tol_a = tol_a + util.COND_FACTOR * sens
        if not ea <= tol_a:  # B is itself a difference quotient of float64 samples (measured up to 3e-9 on 1500 cases)
            viols.append(util.viol("affine_in_draws", f"sample is not affine in the draws ({ea:.3g})", tags=tags))
        del sa
    # (4) shapes with the real generator
    for shape in ((), (2,), (2, 3)):
        smp = sample_fn(jax.random.PRNGKey(3), shape)
        obs["shape_checks"] = obs.get("shape_checks", 0) + 1
        for c in smp:
            for leaf in jax.tree.leaves(c):
                if tuple(leaf.shape[: len(shape)]) != shape or leaf.shape[len(shape)] != T or not np.all(np.isfinite(np.asarray(leaf))):
                    viols.append(util.viol("sample_shape", f"shape={shape}: leaf shape {leaf.shape}", tags=tags))
                    break
    # (5) pytree-shaped states: samples come back in the caller's structure, sample shape prepended, zero draws = means
    if case["source"] != "prior":
        _pytree_part(case, viols, obs, tags)
    sigs = []
    if (d > 1 or nu > 1) and T >= 3:
        sigs.append(f"{case['source']}|{fact}|{case['cal']}|{nu}|{d}|{T}")
    sample = {"config": tags, "d": d, "T": T, "draw_calls": calls0, "max_zero_draw_dev": e0, "max_gram_dev": eg}
    return {"violations": viols, "obs": obs, "sigs": sigs, "sample": sample}

"""C07 — the acceptance quantity equals the documented local error estimate.

Every ``estimate_error_norm`` call inside a real adaptive run is intercepted (recording proxy) and the
returned number is recomputed from the *previous mean only* with the documented formula; the same
estimator is then called directly on recorded (previous, proposed) pairs with other dt / tolerances.
"""

import math

import numpy as np

from pdv import configs, extract, poly, record, util
from pdv.refmodel import lin, mpl, sde

ID = "C07"
LEVEL = "exploration"
RULE = (
    "cases = random polynomial IVP (order 1/2, d<=3) x factorisation x calibration x TS0/TS1 x nu in 1..5 x estimator "
    "(residual/state) x norm (scale-then-rms / rms-then-scale) x cached/re-linearised x per-unit-step x derivative index; "
    "each case: one recorded adaptive run (all intercepted calls recomputed), direct calls with dt in [1e-5,1] and "
    "atol/rtol in [1e-10,1e-1], and a rerun with the base scale times 2^k. non-trivial = run with >=1 rejected and >=1 "
    "accepted attempt; distinct = configuration tuples"
)
ASSUMPTIONS = [
    "the documented formula: norm^(-1/(nu+1)), norm = tolerance-weighted RMS of sigma_hat*std * dt^n/n!, reference "
    "max(|u_prev|,|u_new|), evaluated from the previous mean with exact IWP transition and exact polynomial Jacobians",
]
REQUIRED_OBS = {"intercepted_calls": 60, "direct_calls": 30, "scale_pairs": 10, "rejected_calls": 5}
TOL = 1e-8


def cases(tier, seed):
    rng = util.rng_for(ID, tier, seed)
    out = []
    n = 48 if tier == "quick" else 480
    for k in range(n):
        order = rng.choice([1, 1, 2])
        d = rng.randint(1, 3)
        nu = rng.randint(max(order, 1), 5)
        field, inits_, t0_ = poly.random_problem(rng, d=d, nblocks=order, num_coeffs=nu + 1, degree=2, nterms=2, time_dep=rng.random() < 0.5)
        est = rng.choice(["residual", "residual", "state"])
        out.append(
            {
                "id": f"c07-{k}", "fact": configs.FACTS[k % 3], "cal": configs.CALS[(k // 3) % 3],
                "ts": rng.choice(["ts0", "ts1"]), "nu": nu, "est": est,
                "norm": rng.choice(["scale_then_rms", "rms_then_scale"]), "relin": rng.random() < 0.5,
                "per_unit": rng.random() < 0.4, "didx": rng.randint(0, min(nu, 2)) if est == "state" else 0,
                "strategy": rng.choice(["filter", "fixedpoint"]),
                "field": field.to_json(),
                "inits": [[str(x) for x in blk] for blk in inits_],
                "t0": str(t0_),
                "tol": 10 ** rng.uniform(-7, -2), "rtol_factor": 10 ** rng.uniform(-2, 2),
                "dt0": 10 ** rng.uniform(-2, 0.3), "base": 2.0 ** rng.randint(-3, 3), "kshift": rng.choice([-7, -2, 3, 9]),
                "seedc": rng.randrange(10**9), "cost": 4.0,
            }
        )
    return out


class CountingConstraint:
    """Delegating proxy that counts ``linearize`` calls (cached vs re-evaluated linearisation)."""

    def __init__(self, inner):
        self._c = inner
        self.count = 0

    def __getattr__(self, k):
        return getattr(self._c, k)

    def linearize(self, *a, **kw):
        self.count += 1
        return self._c.linearize(*a, **kw)

    def init_linearization(self):
        return self._c.init_linearization()


def _norm_fn(name):
    from probdiffeq import probdiffeq

    return probdiffeq.error_norm_scale_then_rms() if name == "scale_then_rms" else probdiffeq.error_norm_rms_then_scale()


def reference_error_power(*, field, fact, ts, nu, d, base, prev_mean, u_prev, u_prop, t_new, dt, atol, rtol, damp, est,
                          norm, per_unit, didx):
    """The documented formula, from the previous mean only (mpmath for the small linear algebra)."""
    n = nu + 1
    lam = np.full((d,), float(base)) if np.ndim(base) == 0 else np.asarray(base, float)
    Phi, Q = sde.iwp_dense(nu, _frac(dt), lam)
    m_pred = Phi @ prev_mean
    H, z = lin.linearize(field, fact=fact, ts=ts, m=m_pred, n=n, t=t_new)
    # conditioning of the residual: z = x_pred[order] - f(...) is a difference of O(1) terms
    top = m_pred[field.nblocks * d : (field.nblocks + 1) * d]
    zmax = float(np.max(np.abs(z)))
    kappa = float("inf") if zmax == 0.0 else float((np.max(np.abs(top)) + np.max(np.abs(top - z))) / zmax)
    Hm, Qm, zm = mpl.M(H), mpl.M(Q), mpl.M(z)
    S = mpl.mm(Hm, Qm, Hm.T)
    for i in range(d):
        S[i, i] = S[i, i] + mpl.mp.mpf(damp) ** 2
    if fact == "blockdiag":
        sig = np.asarray([mpl.sqrt(zm[k] ** 2 / S[k, k]) for k in range(d)], dtype=object)
    else:
        w = mpl.solve(S, zm)
        sig = mpl.sqrt(sum(a * b for a, b in zip(zm, w)) / d)
    if est == "residual":
        std = np.asarray([mpl.sqrt(S[k, k]) for k in range(d)], dtype=object)
        nn = field.nblocks  # residual_order - 1 with residual_order = (ode order) + 1
        ref = np.maximum(np.abs(u_prev[0]), np.abs(u_prop[0]))
    else:
        K = mpl.solve(S, mpl.mm(Hm, Qm))  # S^-1 H Q
        Ppost = Qm - mpl.mm(Qm, Hm.T, K)
        std = np.asarray([mpl.sqrt(max(Ppost[didx * d + k, didx * d + k], 0)) for k in range(d)], dtype=object)
        # the posterior variance is a difference Q - Q H^T S^-1 H Q; if it cancels (the observed coefficient
        # itself, noise-free) the float64 value is rounding noise
        for k in range(d):
            i = didx * d + k
            if not Ppost[i, i] > Qm[i, i] * mpl.mp.mpf(10) ** -9:
                kappa = float("inf")
        nn = didx
        ref = np.maximum(np.abs(u_prev[didx]), np.abs(u_prop[didx]))
    if per_unit:
        nn += 1
    err = mpl.F(sig * std) * dt**nn / math.factorial(nn)
    if fact == "isotropic":
        err = err[:1]  # one scalar per coefficient in the isotropic model
    if norm == "scale_then_rms":
        rel = err / (atol + rtol * ref)
        val = np.sqrt(np.mean(rel**2))
    else:
        val = np.sqrt(np.mean(err**2)) / (atol + rtol * np.sqrt(np.mean(ref**2)))
    return float(val ** (-1.0 / n)) if val > 0 else float("inf"), kappa


def _frac(x):
    from fractions import Fraction

    return Fraction(float(x))


def _coeff(mean_dense, j, d):
    return mean_dense[j * d : (j + 1) * d]


def run_case(case):
    import jax
    import jax.numpy as jnp
    from probdiffeq import ivpsolve, probdiffeq

    fact, nu = case["fact"], case["nu"]
    problem = {"name": "poly", "field": case["field"], "inits": case["inits"], "t0": case["t0"]}
    viols, obs, sigs = [], {"cases": 1}, []
    tags = {k: case[k] for k in ("fact", "cal", "ts", "est", "norm", "relin", "per_unit")}
    per_run = []
    for base in (case["base"], case["base"] * 2.0 ** case["kshift"]):
        cfg = configs.build(fact=fact, strategy=case["strategy"], cal=case["cal"], ts=case["ts"], nu=nu, problem=problem,
                            base_scale=base)
        field, d = cfg["prob"]["field"], cfg["d"]
        cc = CountingConstraint(cfg["constraint"])
        ekw = dict(constraint=cc, error_norm=_norm_fn(case["norm"]), re_linearize_before_error=case["relin"],
                   error_per_unit_step=case["per_unit"])
        if case["est"] == "residual":
            est = probdiffeq.error_residual_std(**ekw)
        else:
            est = probdiffeq.error_state_std(derivative_idx=case["didx"], **ekw)
        log = record.Log()
        rec = record.RecError(log, est, keep_calls=True)
        atol, rtol = case["tol"], case["tol"] * case["rtol_factor"]
        t0 = cfg["prob"]["t0"]
        solve = ivpsolve.solve_adaptive_save_at(solver=cfg["solver"], error=rec, while_loop=record.make_while(log, max_iter=60))
        counts = []
        orig = rec.estimate_error_norm

        def counted(*a, _orig=orig, **kw):
            before = cc.count
            out = _orig(*a, **kw)
            counts.append(cc.count - before)
            return out

        rec.estimate_error_norm = counted
        try:
            with jax.disable_jit():
                solve(cfg["prior"], jnp.asarray([t0, t0 + 0.3]), atol=atol, rtol=rtol, dt0=case["dt0"])
        except record.BudgetExceeded:
            obs["budget_hits"] = obs.get("budget_hits", 0) + 1
        per_run.append((cfg, rec, counts, est, cc))
        if base != case["base"]:
            continue
        # ---- recompute every intercepted call -------------------------------------------------------
        for call, cnt in zip(rec.calls, counts):
            prev, prop = call["previous"], call["proposed"]
            pm, _ = extract.normal_dense(prev.u)
            qm, _ = extract.normal_dense(prop.u)
            u_prev = [_coeff(pm, j, d) for j in range(nu + 1)]
            u_prop = [_coeff(qm, j, d) for j in range(nu + 1)]
            ref, kappa = reference_error_power(
                field=field, fact=fact, ts=case["ts"], nu=nu, d=d, base=base, prev_mean=pm, u_prev=u_prev, u_prop=u_prop,
                # the tolerances and damping of the *caller of the solve*, not the ones that arrive at the estimator: the
                # number compared with one must be the documented estimate for what the user asked (seed C01-s3 swapped
                # atol and rtol inside the rejection loop)
                t_new=float(prop.t), dt=call["dt"], atol=atol, rtol=rtol, damp=0.0,
                est=case["est"], norm=case["norm"], per_unit=case["per_unit"], didx=case["didx"],
            )
            if (call["atol"], call["rtol"], call["damp"]) != (float(atol), float(rtol), 0.0):
                viols.append(util.viol("tolerances_forwarded", f"the estimator received atol={call['atol']!r}, rtol={call['rtol']!r}, damp={call['damp']!r}; "
                                                               f"the solve was called with atol={atol!r}, rtol={rtol!r}, damp=0", tags=tags))
                break
            if not kappa < 1e5:
                # the residual is rounding noise relative to its terms: any float64 evaluation is meaningless
                obs["ill_conditioned_skipped"] = obs.get("ill_conditioned_skipped", 0) + 1
                continue
            tol_eff = TOL + 1e-13 * kappa
            err = abs(call["ep"] - ref) / abs(ref) if math.isfinite(call["ep"]) else float("inf")
            obs["intercepted_calls"] = obs.get("intercepted_calls", 0) + 1
            obs["rejected_calls"] = obs.get("rejected_calls", 0) + int(call["ep"] < 1.0)
            obs["max_rel_dev"] = max(obs.get("max_rel_dev", 0.0), err)
            if not err <= tol_eff:
                viols.append(util.viol("documented_formula", f"estimate_error_norm returned {call['ep']!r}, documented formula gives {ref!r} (rel {err:.3g})",
                                       tags=tags, witness={"dt": call["dt"], "atol": call["atol"], "rtol": call["rtol"], "t": float(prop.t)}))
                break
            want = 1 if case["relin"] else 0
            if cnt != want:
                viols.append(util.viol("cached_vs_relinearised", f"{cnt} linearisations inside the estimate, configured {want}", tags=tags))
                break
        # ---- direct calls on recorded pairs (re-linearised estimator: consistent for any dt) -------------
        if rec.calls:
            r = np.random.default_rng(case["seedc"])
            ekw2 = dict(ekw)
            ekw2["re_linearize_before_error"] = True
            est2 = probdiffeq.error_residual_std(**ekw2) if case["est"] == "residual" else probdiffeq.error_state_std(derivative_idx=case["didx"], **ekw2)
            for _ in range(5):
                call = rec.calls[int(r.integers(0, len(rec.calls)))]
                prev, prop = call["previous"], call["proposed"]
                dt = float(10 ** r.uniform(-5, 0)) if r.random() < 0.3 else float(10 ** r.uniform(-2, 0))
                at, rt = float(10 ** r.uniform(-10, -1)), float(10 ** r.uniform(-10, -1))
                ep, _ = est2.estimate_error_norm(est2.init_error(), prev, prop, dt=dt, atol=at, rtol=rt, damp=0.0)
                pm, _ = extract.normal_dense(prev.u)
                qm, _ = extract.normal_dense(prop.u)
                ref, kappa = reference_error_power(
                    field=field, fact=fact, ts=case["ts"], nu=nu, d=d, base=base, prev_mean=pm,
                    u_prev=[_coeff(pm, j, d) for j in range(nu + 1)], u_prop=[_coeff(qm, j, d) for j in range(nu + 1)],
                    t_new=float(prop.t), dt=dt, atol=at, rtol=rt, damp=0.0, est=case["est"], norm=case["norm"],
                    per_unit=case["per_unit"], didx=case["didx"],
                )
                if not kappa < 1e5:
                    obs["ill_conditioned_skipped"] = obs.get("ill_conditioned_skipped", 0) + 1
                    continue
                tol_eff = TOL + 1e-13 * kappa
                err = abs(float(ep) - ref) / abs(ref) if math.isfinite(float(ep)) else float("inf")
                obs["direct_calls"] = obs.get("direct_calls", 0) + 1
                obs["max_rel_dev_direct"] = max(obs.get("max_rel_dev_direct", 0.0), err)
                if not err <= tol_eff:
                    viols.append(util.viol("documented_formula_direct", f"direct call dt={dt:.3g} atol={at:.3g} rtol={rt:.3g}: {float(ep)!r} vs {ref!r} (rel {err:.3g})", tags=tags))
                    break
    # ---- invariance under the base scale (dyadic factor: exact arithmetic) -----------------------------
    (c1, r1, _, _, _), (c2, r2, _, _, _) = per_run
    if r1.calls and r2.calls:
        obs["scale_pairs"] = 1
        e1, e2 = [c["ep"] for c in r1.calls], [c["ep"] for c in r2.calls]
        if len(e1) != len(e2):
            viols.append(util.viol("scale_invariance", f"base scale x 2^{case['kshift']} changed the number of attempts: {len(e1)} vs {len(e2)}", tags=tags))
        else:
            dev = max([abs(a - b) / abs(a) for a, b in zip(e1, e2) if math.isfinite(a) and math.isfinite(b) and a < 1e6] or [0.0])
            obs["max_scale_dev"] = dev
            if not dev <= 1e-10:
                viols.append(util.viol("scale_invariance", f"acceptance quantity changes by {dev:.3g} under base scale x 2^{case['kshift']}", tags=tags))
    ncalls = len(r1.calls)
    if any(c["ep"] < 1 for c in r1.calls) and any(c["ep"] >= 1 for c in r1.calls):
        sigs.append("|".join(str(case[k]) for k in ("fact", "cal", "ts", "nu", "est", "norm", "relin", "per_unit", "didx")) + f"|o{field.nblocks}")
    sample = {"config": tags, "field": field.describe(), "calls": ncalls,
              "first_values": [c["ep"] for c in r1.calls[:4]], "max_rel_dev": obs.get("max_rel_dev")}
    return {"violations": viols, "obs": obs, "sigs": sigs, "sample": sample}

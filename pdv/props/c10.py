"""C10 — Taylor-coefficient initialisation returns the exact solution derivatives.

Monitor: every routine is run on random polynomial vector fields with rational data;
the oracle is the exact power-series solution over Fractions (pdv.poly).
"""

from fractions import Fraction

import numpy as np

from pdv import poly, util

ID = "C10"
LEVEL = "exploration"
RULE = (
    "cases = routine x random polynomial field (d<=3, order 1/2, degree<=3, rational coefficients, "
    "rational u0 and t0) x num in 0..10 x flat/pytree state; a case is non-trivial when num>=2 and the "
    "field is nonlinear or time-dependent; distinct = (routine, order, d, time-dependent, nonlinear, "
    "pytree, num) tuples; implicit (mass-matrix) and semi-explicit DAE problems for the residual routine"
)
ASSUMPTIONS = [
    "exact power-series recurrence over Fraction is the reference (pdv/poly.py, ~60 lines)",
    "float64 evaluation of polynomial fields with small rational coefficients is accurate to 1e-9 relative "
    "to the largest coefficient magnitude up to that order",
]
REQUIRED_OBS = {"coeffs_compared": 50, "time_dependent_cases": 3, "nonlinear_cases": 3}
TOL = 1e-9
TOL_RESIDUAL = 1e-7

ROUTINES = ["padded_scan", "unroll", "via_jvp", "doubling", "residual"]


def _rat(rng, lo=-2, hi=2, den=(1, 2, 3, 4)):
    return Fraction(rng.randint(lo * 4, hi * 4), 4 * rng.choice(den))


def cases(tier, seed):
    rng = util.rng_for(ID, tier, seed)
    out = []
    reps = 1 if tier == "quick" else 6
    # covering plan: every routine x ODE order x requested number (the boundary values num <= order, num = order + 1
    # are exactly where early exits and padding live), the remaining factors drawn at random per cell
    plan = []
    for routine in ROUTINES:
        if routine == "doubling":
            cells = [(1, nd) for nd in range(1, 4 if tier == "quick" else 5)] * 3
        elif routine == "residual":
            cells = [(o, nn) for o in (1, 2) for nn in range(0, 7)]
        elif routine == "via_jvp":
            cells = [(o, nn) for o in (1, 2, 3) for nn in range(0, 7)]
        else:
            cells = [(o, nn) for o in (1, 2, 3) for nn in range(0, 9)] + [(1, 10), (2, 10)]
        plan += [(routine, o, nn) for o, nn in cells] * reps
    counters = {}
    for routine, order, num in plan:
        if True:
            k = counters[routine] = counters.get(routine, -1) + 1
            d = rng.choice([1, 2, 3])
            time_dep = rng.random() < 0.7
            field = poly.random_field(
                rng, d=d, nblocks=order, degree=rng.choice([1, 2, 3]), nterms=3, time_dep=time_dep
            )
            # the pytree promotion wrapper supports ODE orders 1 and 2 (it rejects order 3 loudly): pytrees only there
            pytree = routine not in ("residual",) and order <= 2 and rng.random() < 0.4
            inits = [[str(_rat(rng)) for _ in range(d)] for _ in range(order)]
            case = {
                "id": f"{routine}-{k}",
                "routine": routine,
                "field": field.to_json(),
                "inits": inits,
                "t0": str(_rat(rng)),
                "num": num,
                "pytree": pytree,
                "variant": "ode",
            }
            if routine == "residual":
                case["variant"] = rng.choice(["ode", "mass", "dae"])
                if case["variant"] == "mass":
                    # unit lower-triangular rational mass matrix
                    M = [[Fraction(int(i == j)) for j in range(d)] for i in range(d)]
                    for i in range(d):
                        for j in range(i):
                            M[i][j] = _rat(rng, -1, 1)
                    case["mass"] = [[str(x) for x in row] for row in M]
                if case["variant"] == "dae":
                    # differential part on dimension d, one algebraic variable z = g(u, t)
                    case["alg"] = poly.random_field(
                        rng, d=d, nblocks=1, degree=2, nterms=2, time_dep=time_dep, dout=1, decay=False
                    ).to_json()
                    case["couple"] = [str(_rat(rng, -1, 1)) for _ in range(d)]
            out.append(case)
    return out


# ---- helpers -------------------------------------------------------------------------


def _template(d):
    import jax.numpy as jnp

    if d == 1:
        return {"a": jnp.zeros((1, 1))}
    if d == 2:
        return {"a": jnp.zeros(()), "b": (jnp.zeros((1,)),)}
    return {"a": jnp.zeros(()), "b": (jnp.zeros((2, 1)),)}


def _exact_for_case(case, field, inits, t0):
    """Exact derivatives for the (possibly implicit) problem of this case."""
    num = case["num"]
    variant = case["variant"]
    d, order = field.d, field.nblocks
    if case["routine"] == "doubling":
        total = 2 ** (num + 1) - 1  # 1 -> 3 -> 7 -> 15 coefficients
        return poly.ode_taylor_coefficients(field, inits, t0, total - order)
    if variant == "ode":
        return poly.ode_taylor_coefficients(field, inits, t0, num)
    if variant == "mass":
        M = [[Fraction(x) for x in row] for row in case["mass"]]
        # explicit field g = M^{-1} f by forward substitution on term lists (M unit lower-triangular)
        g_terms = []
        for i in range(d):
            ti = list(field.terms[i])
            for j in range(i):
                ti += [(-M[i][j] * c, ex) for c, ex in g_terms[j]]
            g_terms.append(ti)
        g = poly.PolyField(d, order, g_terms)
        return poly.ode_taylor_coefficients(g, inits, t0, num)
    raise ValueError(variant)


def _dae_exact(case, field, alg, couple, inits, t0, num):
    """u' = f(u,t) + couple*z,  0 = z - g(u,t): substitute z -> explicit polynomial ODE for u; z = g(u,t)."""
    d = field.d
    terms = []
    for i in range(d):
        ti = list(field.terms[i]) + [(couple[i] * c, ex) for c, ex in alg.terms[0]]
        terms.append(ti)
    full = poly.PolyField(d, 1, terms)
    u_derivs = poly.ode_taylor_coefficients(full, inits, t0, num)  # 1+num lists
    z_derivs = poly.total_derivatives_along_curve(alg, u_derivs, t0, num)  # num+1 values
    return [list(u_derivs[n]) + [z_derivs[n][0]] for n in range(num + 1)]


def run_case(case):
    import jax
    import jax.flatten_util
    import jax.numpy as jnp
    from probdiffeq import probdiffeq

    field = poly.PolyField.from_json(case["field"])
    d, order = field.d, field.nblocks
    inits = [[Fraction(x) for x in blk] for blk in case["inits"]]
    t0 = Fraction(case["t0"])
    num, routine = case["num"], case["routine"]
    f = field.jax_fn()
    obs = {"cases": 1}
    viols = []

    inits_arr = [jnp.asarray([float(x) for x in blk]) for blk in inits]
    if case["pytree"]:
        tmpl = _template(d)
        _, unravel = jax.flatten_util.ravel_pytree(tmpl)

        def rav(x):
            return jax.flatten_util.ravel_pytree(x)[0]

        if order == 1:
            vf = probdiffeq.ode(lambda u, *, t: unravel(f(rav(u), t=t)))
        elif order == 2:
            vf = probdiffeq.ode_order_two(lambda u, du, *, t: unravel(f(rav(u), rav(du), t=t)))
        else:
            vf = probdiffeq.ode_order_arbitrary(lambda *us, t: unravel(f(*[rav(u) for u in us], t=t)), num_tcoeffs_in_args=order)
        inits_in = [unravel(x) for x in inits_arr]
    else:
        rav = None
        if order == 1:
            vf = probdiffeq.ode(lambda u, *, t: f(u, t=t))
        elif order == 2:
            vf = probdiffeq.ode_order_two(lambda u, du, *, t: f(u, du, t=t))
        else:
            vf = probdiffeq.ode_order_arbitrary(lambda *us, t: f(*us, t=t), num_tcoeffs_in_args=order)
        inits_in = inits_arr

    tol = TOL
    if routine == "padded_scan":
        got, _ = probdiffeq.jetexpand_ode_padded_scan(num=num)(vf, inits_in, t=float(t0))
        exact = _exact_for_case(case, field, inits, t0)
    elif routine == "unroll":
        got, _ = probdiffeq.jetexpand_ode_unroll(num=num)(vf, inits_in, t=float(t0))
        exact = _exact_for_case(case, field, inits, t0)
    elif routine == "via_jvp":
        got, _ = probdiffeq.jetexpand_ode_via_jvp(num=num)(vf, inits_in, t=float(t0))
        exact = _exact_for_case(case, field, inits, t0)
    elif routine == "doubling":
        got, _ = probdiffeq.jetexpand_ode_doubling_unroll(num_doublings=num)(vf, inits_in, t=float(t0))
        exact = _exact_for_case(case, field, inits, t0)
    elif routine == "residual":
        tol = TOL_RESIDUAL
        nlstsq = probdiffeq.lstsq_constrained_gauss_newton(maxiter=60, tol=1e-13)
        expand = probdiffeq.jetexpand_residual(num=num, nlstsq=nlstsq)
        variant = case["variant"]
        if variant == "ode":
            res = probdiffeq.residual_from_ode(vf)
            if num >= 1:
                res = res.jet_lift(lift_by=num - 1)
            got, info = expand(res, inits_in, t=float(t0))
            exact = _exact_for_case(case, field, inits, t0)
        elif variant == "mass":
            M = jnp.asarray([[float(Fraction(x)) for x in row] for row in case["mass"]])
            if order == 1:
                res = probdiffeq.residual_velocity(lambda u, du, *, t: M @ du - f(u, t=t))
            else:
                res = probdiffeq.residual_acceleration(lambda u, du, ddu, *, t: M @ ddu - f(u, du, t=t))
            if num >= 1:
                res = res.jet_lift(lift_by=num - 1)
            got, info = expand(res, inits_in, t=float(t0))
            exact = _exact_for_case(case, field, inits, t0)
        else:  # semi-explicit index-1 DAE in the variables (u, z); first order only
            if order != 1:
                field = poly.PolyField(d, 1, [[(c, ex[:d] + ex[-1:]) for c, ex in ti if sum(ex[d:-1]) == 0] for ti in field.terms])
                f = field.jax_fn()
                inits = inits[:1]
                order = 1
            alg = poly.PolyField.from_json(case["alg"])
            couple = [Fraction(x) for x in case["couple"]]
            g = alg.jax_fn()
            cvec = jnp.asarray([float(x) for x in couple])
            differential = probdiffeq.residual_velocity(
                lambda y, dy, *, t: dy[:d] - f(y[:d], t=t) - cvec * y[d]
            )
            algebraic = probdiffeq.residual_position(lambda y, *, t: y[d] - g(y[:d], t=t)[0])
            # consistent initial value for z
            z0 = alg.eval_exact([inits[0]], t0)[0]
            y0 = jnp.asarray([float(x) for x in inits[0]] + [float(z0)])
            if num >= 1:
                res = probdiffeq.residual_from_stack(
                    differential.jet_lift(lift_by=num - 1), algebraic.jet_lift(lift_by=num)
                )
                got, info = expand(res, [y0], t=float(t0))
            else:
                got, info = expand(algebraic, [y0], t=float(t0))
            exact = _dae_exact(case, field, alg, couple, inits, t0, num)
        obs["residual_cases"] = 1
        obs[f"residual_variant_{variant}"] = 1
    else:
        raise ValueError(routine)

    if case["pytree"]:
        # structure must be the caller's
        want_struct = jax.tree.structure(inits_in[0])
        for n, g_n in enumerate(got):
            if jax.tree.structure(g_n) != want_struct:
                viols.append(util.viol("pytree_structure", f"coefficient {n} has structure {jax.tree.structure(g_n)}", tags={"routine": routine}))
        got_flat = [np.asarray(jax.flatten_util.ravel_pytree(g_n)[0], float) for g_n in got]
    else:
        got_flat = [np.asarray(g_n, float).reshape(-1) for g_n in got]

    if len(got_flat) != len(exact):
        viols.append(util.viol("count", f"{len(got_flat)} coefficients returned, {len(exact)} expected", tags={"routine": routine}))
    worst = 0.0
    running = 1.0
    for n, (g_n, e_n) in enumerate(zip(got_flat, exact)):
        e = np.asarray([float(x) for x in e_n])
        running = max(running, float(np.max(np.abs(e))) if e.size else 0.0)
        if g_n.shape != e.shape:
            viols.append(util.viol("shape", f"coefficient {n}: shape {g_n.shape} vs {e.shape}", tags={"routine": routine}))
            continue
        err = float(np.max(np.abs(g_n - e))) / running if np.all(np.isfinite(g_n)) else float("inf")
        worst = max(worst, err)
        obs["coeffs_compared"] = obs.get("coeffs_compared", 0) + 1
        if err > tol:
            viols.append(
                util.viol(
                    "exact_derivative",
                    f"{routine}: derivative order {n} = {g_n.tolist()} but exact = {[str(x) for x in e_n]} (scaled err {err:.3g})",
                    tags={
                        "routine": routine,
                        "time_dependent": field.depends_on_t,
                        "order_ode": order,
                        "variant": case["variant"],
                    },
                    witness={"field": field.describe(), "t0": str(t0), "inits": case["inits"], "n": n},
                )
            )
            break
    obs["max_scaled_err"] = worst
    nontrivial = (len(exact) - order >= 2) and (field.is_nonlinear or field.depends_on_t)
    obs["time_dependent_cases"] = int(field.depends_on_t)
    obs["nonlinear_cases"] = int(field.is_nonlinear)
    obs["pytree_cases"] = int(case["pytree"])
    sigs = []
    if nontrivial:
        sigs.append(
            f"{routine}|o{order}|d{d}|t{int(field.depends_on_t)}|nl{int(field.is_nonlinear)}|p{int(case['pytree'])}|n{len(exact)}|{case['variant']}"
        )
    sample = {"field": field.describe(), "n_coeffs": len(exact), "max_scaled_err": worst, "last_exact": [str(x) for x in exact[-1]], "last_got": got_flat[-1].tolist()}
    return {"violations": viols, "obs": obs, "sigs": sigs, "sample": sample}

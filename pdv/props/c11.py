"""C11 — jet lifting and constraint constructors differentiate constraints exactly."""

from fractions import Fraction

import numpy as np

from pdv import configs, extract, poly, util
from pdv.refmodel import lin

ID = "C11"
LEVEL = "exploration"
RULE = (
    "cases = {ODE right-hand sides of order 1..3, residuals of differential order 0..2} as random polynomials in "
    "(u,u',u'',t) with rational coefficients x lift order 0..5 x random rational curves; plus inadmissible lift_by "
    "(negative, too large, non-int), residual_from_ode, residual_from_stack (argument log per part) and linearize() "
    "of TS0 / TS1 / residual / jet-lifted TS0 constraints in three factorisations with the exact Jacobian handler. "
    "non-trivial = lift>=1 with explicit time dependence or nonlinearity; distinct = (kind, blocks, d, lift, fact)"
)
ASSUMPTIONS = [
    "exact power-series composition over Fraction (pdv/poly.py) gives the total time derivatives along a curve",
    "exact polynomial Jacobians reduced to full / per-dimension / trace-average form (pdv/refmodel/lin.py)",
]
REQUIRED_OBS = {"lift_outputs_compared": 60, "rejections_checked": 10, "linearizations_compared": 20, "stack_parts_logged": 4}
TOL = 1e-9


def cases(tier, seed):
    rng = util.rng_for(ID, tier, seed)
    out = []
    n = 60 if tier == "quick" else 500
    for k in range(n):
        kind = ["ode", "residual"][k % 2]
        nb = rng.randint(1, 3)
        d = rng.randint(1, 3)
        dout = d if kind == "ode" else rng.randint(1, d)
        f = poly.random_field(rng, d=d, nblocks=nb, degree=rng.choice([1, 2, 3]), nterms=3, time_dep=rng.random() < 0.7,
                              dout=dout, decay=False)
        lift = rng.randint(0, 5)
        extra = rng.randint(0, 2)
        ncoef = nb + lift + extra
        out.append(
            {
                "id": f"lift-{kind}-{k}", "kind": "lift", "what": kind, "field": f.to_json(), "lift": lift,
                "curve": [[str(poly.small_rational(rng, allow_zero=True)) for _ in range(d)] for _ in range(ncoef)],
                "t0": str(poly.small_rational(rng, allow_zero=True)), "pytree": rng.random() < 0.3 and kind == "ode",
            }
        )
    for k in range(6 if tier == "quick" else 30):
        out.append({"id": f"reject-{k}", "kind": "reject", "seedm": rng.randrange(10**9)})
    for k in range(36 if tier == "quick" else 300):
        nb = rng.choice([1, 1, 2])
        d = rng.randint(1, 3)
        nu = rng.randint(nb, nb + 3)
        f = poly.random_field(rng, d=d, nblocks=nb, degree=rng.choice([1, 2, 3]), nterms=3, time_dep=rng.random() < 0.6)
        out.append(
            {
                "id": f"lin-{k}", "kind": "lin", "fact": configs.FACTS[k % 3], "ts": ["ts0", "ts1", "residual", "user_residual", "ts0_lifted"][k % 5],
                "field": f.to_json(), "nu": nu, "damp": rng.choice([0.0, 0.3]),
                "mean": [[float(poly.small_rational(rng, allow_zero=True)) + rng.uniform(-0.2, 0.2) for _ in range(d)] for _ in range(nu + 1)],
                "t": rng.uniform(-1, 1),
            }
        )
    for k in range(4 if tier == "quick" else 20):
        out.append({"id": f"stack-{k}", "kind": "stack", "seedm": rng.randrange(10**9)})
    return out


def _vf_of(field, what, pytree=False):
    """Repo JetOde / JetResidual for a polynomial field."""
    import jax
    import jax.flatten_util
    import jax.numpy as jnp
    from probdiffeq import probdiffeq

    f = field.jax_fn()
    nb = field.nblocks
    jac = probdiffeq.jacobian_materialize()
    if what == "ode":
        if pytree:
            tmpl = {"a": jnp.zeros(()), "b": (jnp.zeros((field.d - 1,)),)} if field.d > 1 else {"a": jnp.zeros((1,))}
            _, unravel = jax.flatten_util.ravel_pytree(tmpl)

            def rav(x):
                return jax.flatten_util.ravel_pytree(x)[0]

            vf = probdiffeq.ode_order_arbitrary(lambda *a, t: unravel(f(*[rav(x) for x in a], t=t)), num_tcoeffs_in_args=nb, jacobian=jac)
            return vf, unravel
        if nb == 1:
            return probdiffeq.ode(lambda u, *, t: f(u, t=t), jacobian=jac), None
        if nb == 2:
            return probdiffeq.ode_order_two(lambda u, du, *, t: f(u, du, t=t), jacobian=jac), None
        return probdiffeq.ode_order_arbitrary(lambda *a, t: f(*a, t=t), num_tcoeffs_in_args=nb, jacobian=jac), None
    ctor = {1: probdiffeq.residual_position, 2: probdiffeq.residual_velocity, 3: probdiffeq.residual_acceleration}[nb]
    return ctor(lambda *a, t: f(*a, t=t), jacobian=jac), None


def _run_lift(case):
    import jax.flatten_util
    import jax.numpy as jnp

    field = poly.PolyField.from_json(case["field"])
    curve = [[Fraction(x) for x in row] for row in case["curve"]]
    t0 = Fraction(case["t0"])
    m = case["lift"]
    vf, unravel = _vf_of(field, case["what"], case["pytree"])
    coords = [jnp.asarray([float(x) for x in row]) for row in curve]
    if unravel is not None:
        coords = [unravel(c) for c in coords]
    lifted = vf.jet_lift(lift_by=m)
    fun = lifted.vector_field if case["what"] == "ode" else lifted.residual_function
    got = fun(jet_coords=coords, t=float(t0))
    exact = poly.total_derivatives_along_curve(field, curve, t0, m)
    viols, obs = [], {"cases": 1}
    tags = {"what": case["what"], "lift": m, "nblocks": field.nblocks}
    if len(got) != m + 1:
        viols.append(util.viol("lift_count", f"{len(got)} outputs for lift_by={m}", tags=tags))
    if lifted.num_tcoeffs_in_args != field.nblocks + m:
        viols.append(util.viol("lift_order", f"lifted order {lifted.num_tcoeffs_in_args}, expected {field.nblocks + m}", tags=tags))
    if case["what"] == "ode" and list(lifted.tcoeff_indices_output) != [field.nblocks + j for j in range(m + 1)]:
        viols.append(util.viol("lift_output_indices", f"output indices {lifted.tcoeff_indices_output}", tags=tags))
    running = 1.0
    for j, (g, e) in enumerate(zip(got, exact)):
        gv = np.asarray(jax.flatten_util.ravel_pytree(g)[0], float)
        ev = np.asarray([float(x) for x in e])
        running = max(running, float(np.max(np.abs(ev))) if ev.size else 0.0)
        err = float(np.max(np.abs(gv - ev))) / running if gv.shape == ev.shape and np.all(np.isfinite(gv)) else float("inf")
        obs["lift_outputs_compared"] = obs.get("lift_outputs_compared", 0) + 1
        obs["max_lift_err"] = max(obs.get("max_lift_err", 0.0), err)
        if err > TOL:
            viols.append(util.viol("total_derivative", f"{j}-th total time derivative = {gv.tolist()} but exact = {[str(x) for x in e]}", tags=tags,
                                   witness={"field": field.describe(), "t0": str(t0)}))
            break
    sigs = []
    if m >= 1 and (field.depends_on_t or field.is_nonlinear):
        sigs.append(f"lift|{case['what']}|{field.nblocks}|{field.d}|{m}|t{int(field.depends_on_t)}")
    return {"violations": viols, "obs": obs, "sigs": sigs,
            "sample": {"field": field.describe(), "lift": m, "last_exact": [str(x) for x in exact[-1]], "max_err": obs.get("max_lift_err")}}


def _run_reject(case):
    import jax.numpy as jnp
    from probdiffeq import probdiffeq

    r = np.random.default_rng(case["seedm"])
    viols, obs = [], {"cases": 1}
    for what in ("ode", "residual"):
        nb = int(r.integers(1, 3))
        field = poly.random_field(util.rng_for("rej", case["seedm"], what), d=2, nblocks=nb, degree=2, nterms=2, decay=False)
        vf, _ = _vf_of(field, what)
        ncoef = nb + int(r.integers(0, 3))
        coords = [jnp.asarray(r.normal(size=2)) for _ in range(ncoef)]
        fun_of = (lambda L: L.vector_field) if what == "ode" else (lambda L: L.residual_function)
        # the admissible maximum works
        ok = fun_of(vf.jet_lift(lift_by=ncoef - nb))(jet_coords=coords, t=0.1)
        assert len(ok) == ncoef - nb + 1
        bad = [("negative", -1), ("too_large", ncoef - nb + 1), ("much_too_large", ncoef + 3), ("float", 1.0), ("string", "1")]
        for name, lb in bad:
            obs["rejections_checked"] = obs.get("rejections_checked", 0) + 1
            try:
                out = fun_of(vf.jet_lift(lift_by=lb))(jet_coords=coords, t=0.1)
                np.asarray(out[0])
            except Exception:  # noqa: BLE001
                continue
            viols.append(util.viol("inadmissible_lift_accepted", f"{what}.jet_lift(lift_by={lb!r}) with {ncoef} coefficients for order {nb} returned numbers",
                                   tags={"what": what, "corruption": name}))
    return {"violations": viols, "obs": obs, "sigs": [f"reject|{case['id']}"]}


def _run_lin(case):
    import jax.numpy as jnp
    from probdiffeq import probdiffeq

    field = poly.PolyField.from_json(case["field"])
    d, nb, nu = field.d, field.nblocks, case["nu"]
    n = nu + 1
    fact, ts = case["fact"], case["ts"]
    ssm = configs.ssm_of(fact)
    vf, _ = _vf_of(field, "ode")
    mean = [jnp.asarray(row) for row in case["mean"]]
    std = [jnp.asarray(0.5) if fact == "isotropic" else 0.5 * jnp.ones((d,)) for _ in range(n)]
    rv = ssm.prior_wiener_integrated_diffuse(mean, std).init
    f = field.jax_fn()
    lift = 0
    # non-default linearisation point (dense model only): a recording proxy around the maximum-a-posteriori Taylor point
    # shows which point the constraint was linearised at; the linearisation must reproduce value and Jacobian *there*, and
    # both constructors must use it (seed C11-s4: the TS1 constructor dropped the argument)
    use_map = fact == "dense" and ts in ("ts1", "residual")
    points = []
    tp_kw = {}
    if use_map:
        inner_tp = probdiffeq.taylor_point_maximum_a_posteriori()

        class _RecPoint(type(inner_tp).__mro__[1]):
            def __call__(self, constraint_flat, rv_, **kw):
                xi_ = inner_tp(constraint_flat, rv_, **kw)
                points.append(np.asarray(xi_, float))
                return xi_

        tp_kw = {"taylor_point": _RecPoint()}
    if ts == "ts0":
        cst = ssm.constraint_ode_ts0(vf)
    elif ts == "ts1":
        cst = ssm.constraint_ode_ts1(vf, **tp_kw)
    elif ts == "residual":
        cst = ssm.constraint_residual(probdiffeq.residual_from_ode(vf), **tp_kw)
    elif ts == "user_residual":
        ctor = {1: probdiffeq.residual_velocity, 2: probdiffeq.residual_acceleration}[nb]
        user = ctor(lambda *a, t: a[-1] - f(*a[:-1], t=t), jacobian=probdiffeq.jacobian_materialize())
        cst = ssm.constraint_residual(user)
    else:
        lift = nu - nb
        cst = ssm.constraint_ode_ts0(vf.jet_lift_max(num_tcoeffs=n))
    t = case["t"]
    cond, _ = cst.linearize(rv, cst.init_linearization(), damp=case["damp"], t=t)
    G, xi, Sig = extract.cond_dense(cond)
    m_dense, _ = extract.normal_dense(rv)
    viols, obs = [], {"cases": 1, "linearizations_compared": 1}
    tags = {"fact": fact, "ts": ts, "nblocks": nb}
    if ts == "ts0_lifted":
        # value: rows l = x[nb+l] - (D^l f)(x); matrix: selector of the coefficients nb..nb+lift
        curve = [[Fraction(float(x)) for x in row] for row in case["mean"]]
        derivs = poly.total_derivatives_along_curve(field, curve, Fraction(float(t)), lift)
        z_ref = np.concatenate([m_dense[(nb + l) * d : (nb + l + 1) * d] - np.asarray([float(x) for x in derivs[l]]) for l in range(lift + 1)])
        H_ref = np.zeros(((lift + 1) * d, n * d))
        for l in range(lift + 1):
            H_ref[l * d + np.arange(d), (nb + l) * d + np.arange(d)] = 1.0
    else:
        ts_ref = "ts0" if ts == "ts0" else "ts1"
        H_ref, z_ref = lin.linearize(field, fact=fact, ts=ts_ref, m=m_dense, n=n, t=t)
    if use_map:
        obs["map_point_linearizations"] = 1
        if len(points) != 1:
            viols.append(util.viol("taylor_point_used", f"the supplied Taylor point was consulted {len(points)} times by {ts} (expected once)", tags=tags))
            return {"violations": viols, "obs": obs, "sigs": [], "sample": None}
        # judged at the point the library says it linearised at
        m_dense = points[0].reshape(-1)
        H_ref, z_ref = lin.linearize(field, fact=fact, ts="ts1", m=m_dense, n=n, t=t)
    val = G @ m_dense + xi
    scale = 1.0 + float(np.max(np.abs(z_ref)))
    ev = float(np.max(np.abs(val - z_ref))) / scale if val.shape == z_ref.shape else float("inf")
    eH = float(np.max(np.abs(G - H_ref))) / (1.0 + float(np.max(np.abs(H_ref)))) if G.shape == H_ref.shape else float("inf")
    eS = float(np.max(np.abs(Sig - case["damp"] ** 2 * np.eye(Sig.shape[0]))))
    obs["max_lin_err"] = max(ev, eH, eS)
    if ev > TOL:
        viols.append(util.viol("linearization_value", f"A m + b deviates from the constraint value by {ev:.3g}", tags=tags))
    if eH > TOL:
        viols.append(util.viol("linearization_jacobian", f"linearised matrix deviates from the exact (reduced) Jacobian by {eH:.3g}", tags=tags,
                               witness={"got": G, "ref": H_ref}))
    if eS > 1e-12:
        viols.append(util.viol("linearization_noise", f"observation noise is not damp^2 I ({eS:.3g})", tags=tags))
    if ts in ("residual", "user_residual"):
        # must be identical to the first-order-linearised ODE constraint
        n_before = len(points)
        c2, _ = ssm.constraint_ode_ts1(vf, **tp_kw).linearize(rv, ssm.constraint_ode_ts1(vf, **tp_kw).init_linearization(), damp=case["damp"], t=t)
        if use_map and len(points) != n_before + 1:
            viols.append(util.viol("taylor_point_used", "constraint_ode_ts1 did not consult the supplied Taylor point", tags=tags))
        G2, xi2, S2 = extract.cond_dense(c2)
        dev = max(float(np.max(np.abs(G - G2))), float(np.max(np.abs(xi - xi2))), float(np.max(np.abs(Sig - S2))))
        obs["ts1_vs_residual_pairs"] = 1
        if dev > 1e-12 * (1 + float(np.max(np.abs(G2)))):
            viols.append(util.viol("ts1_vs_residual", f"constraint_ode_ts1 and constraint_residual(u^(k)-f) linearise differently ({dev:.3g})", tags=tags))
    sigs = [f"lin|{fact}|{ts}|{nb}|{d}|{nu}"] if field.is_nonlinear or field.depends_on_t else []
    return {"violations": viols, "obs": obs, "sigs": sigs, "sample": {"config": tags, "field": field.describe(), "max_err": obs["max_lin_err"]}}


def _run_stack(case):
    import jax.numpy as jnp
    from probdiffeq import probdiffeq

    r = np.random.default_rng(case["seedm"])
    d = 2
    log = []

    def part(name, nargs):
        def fn(*a, t):
            log.append((name, len(a), [np.asarray(x, float).tolist() for x in a]))
            return sum((j + 1.0) * x for j, x in enumerate(a)) * (1.0 + t)

        return {1: probdiffeq.residual_position, 2: probdiffeq.residual_velocity, 3: probdiffeq.residual_acceleration}[nargs](fn)

    orders = [int(x) for x in r.integers(1, 4, size=int(r.integers(2, 4)))]
    parts = [part(f"p{i}", o) for i, o in enumerate(orders)]
    stack = probdiffeq.residual_from_stack(*parts)
    ncoef = max(orders)
    coords = [jnp.asarray(r.normal(size=d)) for _ in range(ncoef)]
    t = 0.3
    out = stack.residual_function(jet_coords=coords, t=t)
    viols, obs = [], {"cases": 1}
    if stack.num_tcoeffs_in_args != ncoef:
        viols.append(util.viol("stack_order", f"stacked order {stack.num_tcoeffs_in_args}, expected {ncoef}", tags={}))
    for i, o in enumerate(orders):
        calls = [c for c in log if c[0] == f"p{i}"]
        obs["stack_parts_logged"] = obs.get("stack_parts_logged", 0) + 1
        if len(calls) != 1 or calls[0][1] != o:
            viols.append(util.viol("stack_arguments", f"part {i} of order {o} was called {len(calls)} times with {[c[1] for c in calls]} coefficients", tags={}))
            continue
        for j in range(o):
            if not np.array_equal(np.asarray(calls[0][2][j]), np.asarray(coords[j], float)):
                viols.append(util.viol("stack_arguments", f"part {i}: argument {j} is not Taylor coefficient {j}", tags={}))
        want = sum((j + 1.0) * np.asarray(coords[j], float) for j in range(o)) * (1.0 + t)
        got = np.asarray(out[i][0] if isinstance(out[i], (list, tuple)) else out[i], float)
        if not np.allclose(got, want, rtol=1e-12, atol=1e-14):
            viols.append(util.viol("stack_value", f"part {i}: value {got.tolist()} vs {want.tolist()}", tags={}))
    return {"violations": viols, "obs": obs, "sigs": [f"stack|{'-'.join(map(str, orders))}"]}


def run_case(case):
    return {"lift": _run_lift, "reject": _run_reject, "lin": _run_lin, "stack": _run_stack}[case["kind"]](case)

"""C19 — constrained least-squares (Gauss-Newton) points are feasible, optimal, exact if affine, and
the reported statistics are truthful. The iteration runs with a recording Python while_loop."""

import numpy as np

from pdv import util

ID = "C19"
LEVEL = "exploration"
RULE = (
    "cases = affine / mildly nonlinear polynomial constraints (rows normalised to O(1)) with 1..D-1 rows on D<=10 "
    "variables x random means x covariance factor (regular, singular, zero) x tol in [1e-12,1e-4] x budget 1..50, "
    "called directly with a recording while_loop (every iterate logged), through taylor_point_maximum_a_posteriori, "
    "and as linearisation point of one dense filter update. non-trivial = nonlinear or singular factor or budget-limited; "
    "distinct = (kind, D, rows, factor kind, termination class)"
)
ASSUMPTIONS = [
    "termination classes are derived from the recorded iterates: feasible / budget exhausted / increment converged",
    "float64 pseudo-inverse (numpy) is the reference for the Gaussian conditional mean of affine constraints",
]
REQUIRED_OBS = {"runs": 60, "class_feasible": 20, "class_budget": 3, "affine_exact_checks": 10, "stats_checked": 60}


def cases(tier, seed):
    rng = util.rng_for(ID, tier, seed)
    out = []
    n = 120 if tier == "quick" else 1500
    for k in range(n):
        D = rng.randint(2, 10)
        out.append(
            {
                "id": f"gn-{k}", "kind": "direct", "affine": rng.random() < 0.4, "D": D, "rows": rng.randint(1, D - 1),
                "factor": rng.choice(["regular", "regular", "singular", "zero", "badly_scaled"]), "tol": 10 ** rng.uniform(-12, -4),
                "maxiter": rng.choice([1, 2, 3, 5, 10, 20, 50]), "eps": 10 ** rng.uniform(-3, -0.5),
                "seedm": rng.randrange(10**9), "via_map": rng.random() < 0.2,
            }
        )
    for k in range(8 if tier == "quick" else 60):
        out.append({"id": f"filter-{k}", "kind": "filter", "d": rng.randint(1, 3), "nu": rng.randint(1, 3),
                    "seedm": rng.randrange(10**9), "cost": 3.0})
    return out


def _problem(case):
    r = np.random.default_rng(case["seedm"])
    D, k = case["D"], case["rows"]
    A = r.normal(size=(k, D))
    A /= np.linalg.norm(A, axis=1, keepdims=True)
    b = r.normal(size=k)
    Q = r.normal(size=(k, D, D)) / D
    eps = 0.0 if case["affine"] else case["eps"]
    m = r.normal(size=D)
    if case["factor"] == "regular":
        L = np.tril(r.normal(size=(D, D))) * 0.3 + np.diag(r.uniform(0.5, 1.5, size=D))
    elif case["factor"] == "singular":
        rank = r.integers(1, D)
        L = r.normal(size=(D, rank)) @ r.normal(size=(rank, D)) * 0.5
    elif case["factor"] == "badly_scaled":
        # standard deviations spread over nine decades (all non-zero): J L has rows of very different size, so anything that
        # squares the conditioning (normal equations, Gram matrices) loses the small directions (seed C19-s4)
        stds = np.exp(r.uniform(np.log(1e-9), 0.0, size=D))
        stds[r.integers(0, D)] = 1.0
        L = np.diag(stds) @ (np.eye(D) + 0.2 * np.tril(r.normal(size=(D, D)), -1))
        # make at least one constraint row see only the smallest-variance component plus a large-variance one
        A = A.copy()
        j_small, j_big = int(np.argmin(stds)), int(np.argmax(stds))
        A[0, :] = 0.0
        A[0, j_small] = 1.0
        if A.shape[0] > 1:
            A[1, :] = 0.0
            A[1, j_big] = 1.0
            A[1, j_small] = 0.5
    else:
        L = np.zeros((D, D))

    def g_np(x):
        return A @ x - b + eps * np.einsum("kij,i,j->k", Q, x, x)

    def jac_np(x):
        return A + eps * (np.einsum("kij,j->ki", Q, x) + np.einsum("kij,i->kj", Q, x))

    return A, b, Q, eps, m, L, g_np, jac_np


def run_case(case):
    import jax
    import jax.numpy as jnp
    from probdiffeq import probdiffeq

    if case["kind"] == "filter":
        return _run_filter(case)
    A, b, Q, eps, m, L, g_np, jac_np = _problem(case)
    Aj, bj, Qj = jnp.asarray(A), jnp.asarray(b), jnp.asarray(Q)

    def g(x):
        return Aj @ x - bj + eps * jnp.einsum("kij,i,j->k", Qj, x, x)

    iterates = []

    def rec_while(cond, body, init=None):
        s = init
        iterates.append(np.asarray(s.x, float))
        n = 0
        while bool(cond(s)):
            s = body(s)
            n += 1
            iterates.append(np.asarray(s.x, float))
            if n > 500:
                raise util.Inconclusive("Gauss-Newton loop exceeded 500 iterations although maxiter <= 50")
        rec_while.count = n
        return s

    nl = probdiffeq.lstsq_constrained_gauss_newton(maxiter=case["maxiter"], tol=case["tol"], while_loop=rec_while)
    viols, obs = [], {"runs": 1}
    tags = {"affine": case["affine"], "factor": case["factor"], "via_map": case["via_map"]}
    with jax.disable_jit():
        if case["via_map"]:
            ssm = probdiffeq.state_space_model_dense()
            proto = ssm.prior_wiener_integrated([jnp.zeros((1,)) for _ in range(case["D"])]).init
            rv = type(proto)(jnp.asarray(m), jnp.asarray(L), proto.tree_flatten)
            x = probdiffeq.taylor_point_maximum_a_posteriori(nl)(lambda s: g(s), rv)
            stats = None
        else:
            x, stats = nl(g, jnp.asarray(m), jnp.asarray(m), jnp.asarray(L))
    x = np.asarray(x, float)
    n_iter = rec_while.count
    gx = g_np(x)
    tol = case["tol"]
    rms_g = np.linalg.norm(gx) / np.sqrt(gx.size)
    last_dx = iterates[-1] - iterates[-2] if len(iterates) >= 2 else np.ones_like(x)
    rms_dx = np.linalg.norm(last_dx) / np.sqrt(x.size)

    # ---- truthful statistics ---------------------------------------------------------------------------
    if stats is not None:
        obs["stats_checked"] = 1
        if int(stats["iters"]) != n_iter:
            viols.append(util.viol("stats_iters", f"stats['iters']={int(stats['iters'])} but the loop body ran {n_iter} times", tags=tags))
        fc = np.asarray(stats["final_constraint"], float)
        # g is a difference of terms of size |A||x| + |b|: two correct evaluations differ by a few ulp of those terms
        term = float(np.max(np.abs(A) @ np.abs(x) + np.abs(b) + abs(eps) * np.einsum("kij,i,j->k", np.abs(Q), np.abs(x), np.abs(x))))
        if not np.allclose(fc, gx, rtol=1e-9, atol=1e-12 * (1 + np.max(np.abs(gx))) + 1e-13 * term):
            viols.append(util.viol("stats_constraint", f"stats['final_constraint']={fc.tolist()} but g(x)={gx.tolist()}", tags=tags))
        fi = np.asarray(stats["final_increment"], float)
        if n_iter >= 1 and not np.allclose(fi, last_dx, rtol=1e-9, atol=1e-13 * (1 + np.max(np.abs(x)))):
            viols.append(util.viol("stats_increment", f"stats['final_increment'] is not the last difference of iterates", tags=tags,
                                   witness={"reported": fi, "observed": last_dx}))
    if not np.array_equal(iterates[-1], x):
        viols.append(util.viol("returned_point", "the returned point is not the last iterate", tags=tags))
    if n_iter > case["maxiter"]:
        viols.append(util.viol("budget_respected", f"{n_iter} iterations with maxiter={case['maxiter']}", tags=tags))

    # ---- termination class --------------------------------------------------------------------------------
    J = jac_np(x)
    JL = J @ L
    if rms_g <= tol:
        klass = "feasible"
    elif n_iter == case["maxiter"]:
        klass = "budget"
    else:
        klass = "increment"
        # stopped before the budget with the constraint unsatisfied: only explicable if the constraint cannot be
        # met inside mean + range(L L^T) to first order
        proj = JL @ np.linalg.pinv(JL, rcond=1e-10) @ gx if JL.size else 0 * gx
        outside = np.linalg.norm(gx - proj) / max(np.linalg.norm(gx), 1e-300)
        infeasible = bool(outside > 1e-6)
        # conditioning of the linear problem the iteration solves: an SVD resolves small singular values only to
        # eps * sigma_max *absolutely*, so the residual it can reach is ~ eps * cond(J L) * |g(m)| (finding D17)
        sv = np.linalg.svd(JL, compute_uv=False) if JL.size else np.zeros(1)
        sv_nz = sv[sv > 1e-14 * max(sv[0], 1e-300)] if sv.size else sv
        cond_JL = float(sv_nz[0] / sv_nz[-1]) if sv_nz.size else 1.0
        g0 = float(np.linalg.norm(g_np(m))) + 1e-300
        at_svd_floor = bool(cond_JL > 1e3 and rms_g <= 50 * 2.0**-52 * cond_JL * max(1.0, g0))
        tags = {**tags, "residual_at_svd_accuracy_floor": at_svd_floor}
        viols.append(
            util.viol(
                "early_stop_unsatisfied",
                f"stopped after {n_iter} < maxiter={case['maxiter']} iterations with rms(g)={rms_g:.3g} > tol={tol:.3g} "
                f"(last increment rms {rms_dx:.3g}; part of g outside range(J L): {outside:.3g})",
                tags={**tags, "infeasible_in_range": infeasible, "stats_truthful": not any(v["suboracle"].startswith("stats") for v in viols)},
                witness={"D": case["D"], "rows": case["rows"], "rank_L": int(np.linalg.matrix_rank(L)), "cond_JL": cond_JL, "norm_g_at_mean": g0},
            )
        )
    obs["class_" + klass] = 1

    # ---- first-order optimality: x - m in range(L L^T J^T) up to the last increment -----------------------------
    disp = x - m
    if case["factor"] == "badly_scaled":
        obs["optimality_skipped_badly_scaled"] = 1  # the float64 range test below is itself unreliable at cond 1e9..1e18
    elif np.linalg.norm(disp) > 0:
        B = L @ JL.T
        w, *_ = np.linalg.lstsq(B, disp, rcond=None) if B.size else (np.zeros(0),)
        resid = np.linalg.norm(B @ w - disp) if B.size else np.linalg.norm(disp)
        bound = 10 * np.linalg.norm(last_dx) * (1 + np.linalg.norm(disp)) + 1e-8 * (1 + np.linalg.norm(disp))
        obs["max_optimality_ratio"] = resid / bound
        if klass != "budget" and resid > bound:
            viols.append(util.viol("optimality", f"displacement from the mean has a component of size {resid:.3g} outside range(L L^T J^T) (last increment {np.linalg.norm(last_dx):.3g})", tags=tags))
        obs["optimality_checked"] = 1

    # ---- affine: conditional mean after exactly one iteration ------------------------------------------------
    if case["affine"] and case["maxiter"] >= 1:
        P = L @ L.T
        S = A @ P @ A.T
        x_star = m + P @ A.T @ np.linalg.pinv(S, rcond=1e-12) @ (b - A @ m)
        first = iterates[1] if len(iterates) > 1 else x
        scale = 1 + np.max(np.abs(x_star))
        cond = np.linalg.cond(S) if case["factor"] == "regular" else np.inf
        if case["factor"] in ("regular", "zero") and cond < 1e8:
            dev = float(np.max(np.abs(first - x_star))) / scale
            obs["affine_exact_checks"] = 1
            obs["max_affine_dev"] = dev
            if dev > 1e-9 * max(1.0, cond * 1e-3):
                viols.append(util.viol("affine_one_iteration", f"first iterate deviates from the Gaussian conditional mean by {dev:.3g}", tags=tags))
            if klass == "feasible" and n_iter > 2:
                viols.append(util.viol("affine_iterations", f"affine constraint needed {n_iter} iterations", tags=tags))
    sigs = []
    if (not case["affine"]) or case["factor"] != "regular" or klass == "budget":
        sigs.append(f"direct|{case['D']}|{case['rows']}|{case['factor']}|{klass}|a{int(case['affine'])}")
    sample = {"D": case["D"], "rows": case["rows"], "factor": case["factor"], "affine": case["affine"], "tol": tol,
              "maxiter": case["maxiter"], "iterations": n_iter, "class": klass, "rms_g": rms_g, "rms_last_dx": rms_dx}
    return {"violations": viols, "obs": obs, "sigs": sigs, "sample": sample}


def _run_filter(case):
    """One dense filter update with the MAP point as linearisation point is exact for affine constraints."""
    import jax.numpy as jnp
    from probdiffeq import probdiffeq
    from probdiffeq.backend import linalg

    from pdv import extract
    from pdv.refmodel import mpl

    r = np.random.default_rng(case["seedm"])
    d, nu = case["d"], case["nu"]
    n = nu + 1
    W = r.normal(size=(d, d)) * 0.5
    c = r.normal(size=d)
    Wj, cj = jnp.asarray(W), jnp.asarray(c)
    res = probdiffeq.residual_velocity(lambda u, du, *, t: du - Wj @ u - cj * t, jacobian=probdiffeq.jacobian_materialize())
    ssm = probdiffeq.state_space_model_dense()
    nl = probdiffeq.lstsq_constrained_gauss_newton(maxiter=20, tol=1e-12)
    cst = ssm.constraint_residual(res, taylor_point=probdiffeq.taylor_point_maximum_a_posteriori(nl))
    mean = [jnp.asarray(r.normal(size=d)) for _ in range(n)]
    std = [jnp.asarray(r.uniform(0.3, 1.5, size=d)) for _ in range(n)]
    rv = ssm.prior_wiener_integrated_diffuse(mean, std).init
    t = float(r.uniform(0, 1))
    lin_cond, _ = cst.linearize(rv, cst.init_linearization(), damp=0.0, t=t)
    zeros = [jnp.zeros((d,))]
    post = lin_cond.bayes_rule_tree(zeros, rv, solve_triu=linalg.solve_triu)
    pm, pP = extract.normal_dense(post)
    # exact conditioning on du - W u - c t = 0
    N = n * d
    H = np.zeros((d, N))
    H[:, :d] = -W
    H[np.arange(d), d + np.arange(d)] = 1.0
    m0, P0 = extract.normal_dense(rv)
    z = H @ m0 - c * t
    S = H @ P0 @ H.T
    K = P0 @ H.T @ np.linalg.inv(S)
    m_ref, P_ref = m0 - K @ z, P0 - K @ S @ K.T
    em = util.scaled_mean_err(pm, m_ref, np.diag(P_ref), floor=1e-12)
    ec = util.scaled_cov_err(pP, P_ref, std_floor_rel=1e-9)
    viols = []
    if not (em <= 1e-8 and ec <= 1e-8):
        viols.append(util.viol("filter_update_exact", f"update with the MAP linearisation point deviates from exact conditioning by {em:.3g}/{ec:.3g}", tags={"d": d, "nu": nu}))
    return {"violations": viols, "obs": {"filter_updates": 1, "max_filter_dev": max(em, ec)}, "sigs": [f"filter|{d}|{nu}"],
            "sample": {"kind": "filter", "d": d, "nu": nu, "dev": max(em, ec)}}

"""C15 — results are invariant under pytree structure, permutation, jit and vmap (metamorphic monitor)."""

import collections

import numpy as np

from pdv import configs, extract, util

ID = "C15"
LEVEL = "exploration"
RULE = (
    "kinds: pytree (random nested dict/tuple/namedtuple states, leaves of rank 0..3, custom Taylor container) vs the "
    "flattened problem; permutation of <=4 state components; jit vs jax.disable_jit; vmap over batches whose members need "
    "1x..10x different step counts vs a Python loop. x three factorisations x fixed/adaptive routine x filter/smoothers x "
    "calibration. non-trivial = nested structure with >=2 leaves of different rank / non-identity permutation / batch with "
    "step-count ratio >=3; distinct = (kind, factorisation, routine, strategy, calibration, structure id)"
)
ASSUMPTIONS = ["two executions of the repository that theory says must agree are compared (1e-10; exact structures and shapes)"]
REQUIRED_OBS = {"pytree_pairs": 6, "permutation_pairs": 6, "jit_pairs": 4, "vmap_batches": 4}
TOL = 1e-10
TIMEOUT = {"quick": 1500, "thorough": 3500}

Taylor4 = collections.namedtuple("Taylor4", ["u", "du", "ddu", "dddu"])
Pair = collections.namedtuple("Pair", ["x", "y"])


def cases(tier, seed):
    rng = util.rng_for(ID, tier, seed)
    out = []
    n = 48 if tier == "quick" else 288
    kinds = ["pytree", "permutation", "jit", "vmap", "pytree", "pytree"]
    # pytree cases walk through every (factorisation, structure) pair: the flatten/unflatten code is per factorisation and
    # its leaf handling depends on the rank of the leaves (seed C15-s2 scrambled only rank >= 2 leaves of the block-diagonal model)
    pairs = [(f, st) for f in configs.FACTS for st in range(N_STRUCTS)]
    rng.shuffle(pairs)
    npy = 0
    for k in range(n):
        kind = kinds[k % len(kinds)]
        fact, struct = configs.FACTS[(k // len(kinds)) % 3], rng.randrange(N_STRUCTS)
        if kind == "pytree":
            fact, struct = pairs[npy % len(pairs)]
            npy += 1
        out.append(
            {
                "id": f"{kind}-{k}", "kind": kind, "fact": fact, "cal": rng.choice(configs.CALS),
                "routine": rng.choice(["fixed", "adaptive"]), "strategy": rng.choice(["filter", "smoother"]),
                "ts": rng.choice(["ts0", "ts1"]), "struct": struct, "perm_seed": rng.randrange(10**6),
                "tol": 10 ** rng.uniform(-5, -2), "seedm": rng.randrange(10**9), "cost": 10.0,
            }
        )
    return out


N_STRUCTS = 8


def _structures(idx):
    """(template pytree of zeros, total size)."""
    import jax.numpy as jnp

    z = jnp.zeros
    return [
        {"a": z(()), "b": z((2,))},
        (z((1, 2)), {"k": z(())}),
        Pair(x=z((2, 1, 1)), y=[z(()), z((1,))]),
        {"U": Pair(x=z((1, 1, 1)), y=z(()))},
        [z((3,)), (z(()),)],
        {"M": z((2, 3))},
        (z((2, 2)), z(())),
        Pair(x=z((2, 1, 2)), y=z((1,))),
    ][idx]


def _field_params(r, d):
    A = -np.diag(r.uniform(0.5, 2.0, size=d)) + 0.3 * r.normal(size=(d, d))
    B = 0.2 * r.normal(size=(d,))
    return A, B


def _vf_flat(A, B):
    import jax.numpy as jnp

    Aj, Bj = jnp.asarray(A), jnp.asarray(B)

    def f(u, *, t):
        return Aj @ u + Bj * u * jnp.roll(u, 1) + 0.1 * jnp.sin(t)

    return f


def _solve(case, vf, u0, *, jit=True, container=None, save_at=None, grid=None, tol=None, output_scale=None):
    """Build everything from (vf, u0) through the public API and solve; returns the solution."""
    import jax
    import jax.numpy as jnp
    from probdiffeq import ivpsolve, probdiffeq

    ssm = configs.ssm_of(case["fact"])
    ode = probdiffeq.ode(vf, jacobian=probdiffeq.jacobian_materialize())
    tc, _ = probdiffeq.jetexpand_ode_padded_scan(num=3)(ode, (u0,), t=0.0)
    if container is not None:
        tc = container(*tc)
    prior = ssm.prior_wiener_integrated(tc) if output_scale is None else ssm.prior_wiener_integrated(tc, output_scale=output_scale)
    cst = ssm.constraint_ode_ts0(ode) if case["ts"] == "ts0" or case["fact"] != "dense" else ssm.constraint_ode_ts1(ode)
    adaptive = case["routine"] == "adaptive"
    strat = probdiffeq.strategy_filter() if case["strategy"] == "filter" else (
        probdiffeq.strategy_smoother_fixedpoint() if adaptive else probdiffeq.strategy_smoother_fixedinterval())
    solver = {"solver": probdiffeq.solver, "mle": probdiffeq.solver_mle, "dynamic": probdiffeq.solver_dynamic}[case["cal"]](strategy=strat, constraint=cst)
    if adaptive:
        err = probdiffeq.error_residual_std(constraint=cst)
        fn = ivpsolve.solve_adaptive_save_at(solver=solver, error=err, while_loop=configs.bounded_while() if jit else (lambda c, b, init=None: _py_while(c, b, init)))
        args = dict(save_at=jnp.asarray(save_at), atol=tol or case["tol"], rtol=tol or case["tol"], dt0=0.1)
        call = (lambda: (jax.jit(fn) if jit else fn)(prior, **args))
    else:
        fn = ivpsolve.solve_fixed_grid(solver=solver)
        call = (lambda: (jax.jit(fn) if jit else fn)(prior, grid=jnp.asarray(grid)))
    if jit:
        return call()
    with jax.disable_jit():
        return call()


def _py_while(cond, body, init):
    s, n = init, 0
    while bool(cond(s)):
        s = body(s)
        n += 1
        if n > 3000:
            raise util.Inconclusive("eager loop budget")
    return s


def _flat_marginals(sol, T):
    return [extract.normal_dense(extract.tree_index(sol.u, i)) for i in range(T)]


def _ravel_time(tree_, i):
    import jax
    import jax.flatten_util

    return np.asarray(jax.flatten_util.ravel_pytree(jax.tree.map(lambda x: x[i], tree_))[0])


def run_case(case):
    import jax
    import jax.flatten_util
    import jax.numpy as jnp

    kind, fact = case["kind"], case["fact"]
    r = np.random.default_rng(case["seedm"])
    viols, obs = [], {"cases": 1}
    tags = {k: case[k] for k in ("kind", "fact", "cal", "routine", "strategy", "ts")}
    save_at = np.asarray([0.0, 0.13, 0.4, 0.41, 0.8])
    grid = np.asarray([0.0, 0.1, 0.15, 0.3, 0.5])
    T = 5

    def note(name, val, tol=TOL):
        obs["max_dev_" + name] = max(obs.get("max_dev_" + name, 0.0), val)
        if not val <= tol:
            viols.append(util.viol(name, f"{name}: deviation {val:.3g}", tags=tags))

    if kind == "pytree":
        tmpl = _structures(case["struct"])
        flat0, unravel = jax.flatten_util.ravel_pytree(tmpl)
        d = flat0.size
        A, B = _field_params(r, d)
        f = _vf_flat(A, B)
        u0 = r.uniform(0.2, 1.0, size=d)

        def rav(x):
            return jax.flatten_util.ravel_pytree(x)[0]

        # every other pytree case: user-supplied per-component base scales, given in the caller's structure (seed C15-s4 put
        # them on the wrong rows for states with several leaves)
        sc_f = sc_p = None
        if case["seedm"] % 2 == 0:
            svec = np.exp(r.uniform(np.log(0.05), np.log(20.0), size=d))
            if fact == "isotropic":
                sc_f = sc_p = jnp.asarray(float(svec[0]))
            else:
                sc_f, sc_p = jnp.asarray(svec), unravel(jnp.asarray(svec))
            obs["pytree_custom_scale_cases"] = 1
        sol_f = _solve(case, f, jnp.asarray(u0), save_at=save_at, grid=grid, output_scale=sc_f)
        sol_p = _solve(case, lambda u, *, t: unravel(f(rav(u), t=t)), unravel(jnp.asarray(u0)), container=Taylor4, save_at=save_at, grid=grid, output_scale=sc_p)
        obs["pytree_pairs"] = 1
        mean_p, std_p = sol_p.u.mean, sol_p.u.std
        if not isinstance(mean_p, Taylor4) or not isinstance(std_p, Taylor4):
            viols.append(util.viol("container_type", f"mean/std containers are {type(mean_p).__name__}/{type(std_p).__name__}, expected the caller's Taylor4", tags=tags))
        want_struct = jax.tree.structure(tmpl)
        for j, coeff in enumerate(mean_p):
            if jax.tree.structure(coeff) != want_struct:
                viols.append(util.viol("mean_structure", f"coefficient {j}: structure {jax.tree.structure(coeff)} != caller's {want_struct}", tags=tags))
                break
            for leaf, ref in zip(jax.tree.leaves(coeff), jax.tree.leaves(tmpl)):
                if tuple(leaf.shape) != (T, *ref.shape):
                    viols.append(util.viol("mean_leaf_shape", f"coefficient {j}: leaf shape {leaf.shape}, expected {(T, *ref.shape)}", tags=tags))
        for j, coeff in enumerate(std_p):
            if fact == "isotropic":
                if tuple(np.shape(coeff)) != (T,):
                    viols.append(util.viol("std_leaf_shape", f"isotropic std of coefficient {j} has shape {np.shape(coeff)}, expected ({T},)", tags=tags))
            else:
                if jax.tree.structure(coeff) != want_struct:
                    viols.append(util.viol("std_structure", f"std of coefficient {j}: structure {jax.tree.structure(coeff)} != caller's", tags=tags))
                    break
                for leaf, ref in zip(jax.tree.leaves(coeff), jax.tree.leaves(tmpl)):
                    if tuple(leaf.shape) != (T, *ref.shape):
                        viols.append(util.viol("std_leaf_shape", f"std coefficient {j}: leaf shape {leaf.shape}, expected {(T, *ref.shape)}", tags=tags))
        if not viols:
            for i in range(T):
                for j in range(4):
                    a = _ravel_time(mean_p[j], i)
                    b = np.asarray(sol_f.u.mean[j][i])
                    note("pytree_vs_flat_mean", float(np.max(np.abs(a - b) / (np.abs(b) + 1e-9 * (1 + np.max(np.abs(b)))))), tol=1e-8)
                    sa = np.asarray(std_p[j][i]).reshape(-1) if fact == "isotropic" else _ravel_time(std_p[j], i)
                    sb = np.asarray(sol_f.u.std[j][i]).reshape(-1)
                    note("pytree_vs_flat_std", float(np.max(np.abs(sa - sb) / (np.abs(sb) + 1e-9 * (1 + np.max(np.abs(sb)))))), tol=1e-5 if case["cal"] == "dynamic" else 1e-7)
            note("pytree_vs_flat_scale", util.rel_err(np.asarray(sol_p.output_scale), np.asarray(sol_f.output_scale), floor=1e-300))
            if not np.array_equal(np.asarray(sol_p.num_steps), np.asarray(sol_f.num_steps)):
                viols.append(util.viol("pytree_vs_flat_steps", "step counts differ between pytree and flat problem", tags=tags))
        nontrivial = len({leaf.ndim for leaf in jax.tree.leaves(tmpl)}) >= 2
        sig = f"pytree|{fact}|{case['routine']}|{case['strategy']}|{case['cal']}|s{case['struct']}"
    elif kind == "permutation":
        d = int(r.integers(2, 5))
        perm = np.random.default_rng(case["perm_seed"]).permutation(d)
        if np.array_equal(perm, np.arange(d)):
            perm = np.roll(perm, 1)
        A, B = _field_params(r, d)
        f = _vf_flat(A, B)
        u0 = r.uniform(0.2, 1.0, size=d)
        pj = jnp.asarray(perm)
        inv = jnp.asarray(np.argsort(perm))

        def f_perm(v, *, t):  # v = u[perm]
            return f(v[inv], t=t)[pj]

        sol = _solve(case, f, jnp.asarray(u0), save_at=save_at, grid=grid)
        sol_q = _solve(case, f_perm, jnp.asarray(u0[perm]), save_at=save_at, grid=grid)
        obs["permutation_pairs"] = 1
        for j in range(4):
            a, b = np.asarray(sol_q.u.mean[j]), np.asarray(sol.u.mean[j])[:, perm]
            note("permutation_mean", float(np.max(np.abs(a - b) / (np.abs(b) + 1e-9 * (1 + np.max(np.abs(b)))))),
                 tol=1e-8 if case["strategy"] == "filter" else 1e-6)  # smoothed high coefficients: measured 1.7e-7
            sa, sb = np.asarray(sol_q.u.std[j]), np.asarray(sol.u.std[j])
            sb = sb if fact == "isotropic" else sb[:, perm]
            note("permutation_std", float(np.max(np.abs(sa - sb) / (np.abs(sb) + 1e-9 * (1 + np.max(np.abs(sb)))))), tol=1e-7)
        if not np.array_equal(np.asarray(sol.num_steps), np.asarray(sol_q.num_steps)):
            viols.append(util.viol("permutation_steps", "step counts differ under permutation", tags=tags))
        nontrivial = True
        sig = f"perm|{fact}|{case['routine']}|{case['strategy']}|{case['cal']}|{d}"
    elif kind == "jit":
        d = 2
        A, B = _field_params(r, d)
        f = _vf_flat(A, B)
        u0 = jnp.asarray(r.uniform(0.2, 1.0, size=d))
        sol_j = _solve(case, f, u0, jit=True, save_at=save_at, grid=grid, tol=max(case["tol"], 1e-3))
        sol_e = _solve(case, f, u0, jit=False, save_at=save_at, grid=grid, tol=max(case["tol"], 1e-3))
        obs["jit_pairs"] = 1
        a, b = _flat_marginals(sol_j, T), _flat_marginals(sol_e, T)
        for (ma, Pa), (mb, Pb) in zip(a, b):
            note("jit_vs_eager_mean", float(np.max(np.abs(ma - mb) / (np.abs(mb) + 1e-9 * (1 + np.max(np.abs(mb)))))),
                 tol=1e-8 if case["strategy"] == "filter" else 1e-6)  # measured 2e-8 (smoother)
            note("jit_vs_eager_cov", util.scaled_cov_err(Pa, Pb, std_floor_rel=1e-7), tol=1e-6 if case["cal"] == "dynamic" else 1e-8)
        if not np.array_equal(np.asarray(sol_j.num_steps), np.asarray(sol_e.num_steps)):
            viols.append(util.viol("jit_vs_eager_steps", f"step counts differ: {np.asarray(sol_j.num_steps).tolist()} vs {np.asarray(sol_e.num_steps).tolist()}", tags=tags))
        nontrivial = True
        sig = f"jit|{fact}|{case['routine']}|{case['strategy']}|{case['cal']}"
    else:  # vmap
        from probdiffeq import ivpsolve, probdiffeq

        lams = np.asarray([0.5, 4.0, 30.0, 1.5])
        u0s = r.uniform(0.5, 1.5, size=(4, 2))
        c2 = dict(case, routine="adaptive")

        def run(u0, lam):
            def f(u, *, t):
                return -lam * u + jnp.asarray([0.3, -0.2]) * jnp.cos(3.0 * t) * u[::-1]

            s = _solve(c2, f, u0, save_at=save_at, tol=case["tol"])
            return s.u.mean, s.u.std, s.num_steps, s.output_scale, s.t

        batched = jax.vmap(run)(jnp.asarray(u0s), jnp.asarray(lams))
        obs["vmap_batches"] = 1
        steps = []
        for b in range(4):
            one = run(jnp.asarray(u0s[b]), jnp.asarray(lams[b]))
            steps.append(int(np.asarray(one[2])[-1]))
            sens_b = {}

            def sens_of(name, j, b=b, one=one, sens_b=sens_b):
                """Rounding amplification of this member: the same (unbatched) solve with u0 moved by one unit roundoff."""
                if "run" not in sens_b:
                    sens_b["run"] = run(jnp.asarray(u0s[b] * (1.0 + np.asarray([1.0, -1.0]) * 2.0**-52)), jnp.asarray(lams[b]))
                    obs["conditioning_measured"] = obs.get("conditioning_measured", 0) + 1
                pert = sens_b["run"]
                if not np.array_equal(np.asarray(pert[2]), np.asarray(one[2])):
                    return 0.0
                vp, vo = np.asarray(pert[0 if name == "mean" else 1][j]), np.asarray(one[0 if name == "mean" else 1][j])
                val = float(np.max(np.abs(vp - vo) / (np.abs(vo) + 1e-9 * (1 + np.max(np.abs(vo))))))
                obs["max_measured_sensitivity"] = max(obs.get("max_measured_sensitivity", 0.0), val)
                return val

            for name, xa, xb in (("mean", batched[0], one[0]), ("std", batched[1], one[1])):
                for j in range(4):
                    va, vb = np.asarray(xa[j][b]), np.asarray(xb[j])
                    if not np.all(np.isfinite(va)):
                        viols.append(util.viol("vmap_finite", f"batch member {b}: non-finite {name}", tags=tags))
                        break
                    dev = float(np.max(np.abs(va - vb) / (np.abs(vb) + 1e-9 * (1 + np.max(np.abs(vb))))))
                    tol_v = 1e-8 if name == "mean" else 1e-6
                    if dev > tol_v:
                        tol_v = tol_v + util.COND_FACTOR * sens_of(name, j)
                    note("vmap_vs_loop_" + name, dev, tol=tol_v)
            if not np.array_equal(np.asarray(batched[2][b]), np.asarray(one[2])):
                viols.append(util.viol("vmap_vs_loop_steps", f"batch member {b}: step counts {np.asarray(batched[2][b]).tolist()} vs {np.asarray(one[2]).tolist()}", tags=tags))
            if not np.allclose(np.asarray(batched[4][b]), save_at, atol=1e-8, rtol=0):
                viols.append(util.viol("vmap_times", f"batch member {b}: reported times {np.asarray(batched[4][b]).tolist()}", tags=tags))
        obs["max_step_ratio_in_batch"] = max(steps) / max(min(steps), 1)
        nontrivial = max(steps) >= 3 * max(min(steps), 1)
        sig = f"vmap|{fact}|{case['strategy']}|{case['cal']}"
    sigs = [sig] if nontrivial else []
    sample = {"config": tags, "deviations": {k: v for k, v in obs.items() if k.startswith("max_")}}
    return {"violations": viols, "obs": obs, "sigs": sigs, "sample": sample}

"""C09 — prior transitions are the exact discretisation of their SDE and compose."""

from fractions import Fraction

import numpy as np

from pdv import extract, util
from pdv.refmodel import sde

ID = "C09"
LEVEL = "exploration"
RULE = (
    "cases = {IWP transitions (3 factorisations, nu 0..10, d<=5, h log-uniform in [1e-6,1e2], diagonal base "
    "scales), dense OU/Matern/general-exponential transitions (||drift*h||_1 up to ~50), raw exp_gram_cholesky "
    "calls for all five Pade/Legendre orders in float64 and float32}; each compared, after removing the "
    "preconditioner with our own scaling code, with the exact rational IWP closed form or a 90-digit Van Loan "
    "block exponential; composition merge(h2,h1) vs transition(h1+h2) and linearity in both scales are checked "
    "on the same objects. non-trivial = nu>=1; distinct = (kind, factorisation/order/dtype, nu, d, decade of h)"
)
ASSUMPTIONS = [
    "closed-form rational IWP transition/process noise and the multi-precision Van Loan exponential are the references",
    "float32 cases compare at 1e-4 relative (norm-wise), float64 at the tolerances listed in DESIGN.md C09",
]
REQUIRED_OBS = {"iwp_cases": 10, "exp_prior_cases": 3, "gram_cases_f64": 5, "gram_cases_f32": 5}

TOL_IWP = 1e-10
TOL_EXP64 = 2e-11
TOL_EXP32 = 2e-4


def _loguniform(rng, lo, hi):
    import math

    return math.exp(rng.uniform(math.log(lo), math.log(hi)))


def cases(tier, seed):
    rng = util.rng_for(ID, tier, seed)
    out = []
    n_iwp = 36 if tier == "quick" else 300
    for k in range(n_iwp):
        fact = ["dense", "isotropic", "blockdiag"][k % 3]
        nu = rng.randint(0, 10)
        d = rng.randint(1, 5)
        h1 = _loguniform(rng, 1e-6, 1e2)
        h2 = h1 * _loguniform(rng, 1e-2, 1e2)
        out.append(
            {
                "id": f"iwp-{fact}-{k}", "kind": "iwp", "fact": fact, "nu": nu, "d": d,
                "h1": h1, "h2": h2,
                "base": [_loguniform(rng, 1e-3, 1e3) for _ in range(d)] if rng.random() < 0.7 else None,
                "scale": _loguniform(rng, 1e-4, 1e4),
                "group": f"iwp-{fact}-{nu}-{d}", "cost": 0.3,
            }
        )
    n_exp = 12 if tier == "quick" else 90
    for k in range(n_exp):
        prior = ["ou", "matern", "general"][k % 3]
        n = rng.randint(1, 4 if tier == "quick" else 5)
        d = rng.randint(1, 3)
        target = _loguniform(rng, 1e-3, 50.0)  # ||drift*h||_1 roughly
        out.append(
            {
                "id": f"exp-{prior}-{k}", "kind": "expprior", "prior": prior, "n": n, "d": d,
                "target": target, "seedm": rng.randrange(10**9),
                "base": [_loguniform(rng, 1e-2, 1e2) for _ in range(d)] if rng.random() < 0.5 else None,
                "scale": _loguniform(rng, 1e-3, 1e3),
                "cost": 2.0,
            }
        )
    n_gram = 3 if tier == "quick" else 12
    for x64 in (True, False):
        for order in (3, 5, 7, 9, 13):
            for k in range(n_gram):
                out.append(
                    {
                        "id": f"gram-{'f64' if x64 else 'f32'}-{order}-{k}", "kind": "gram", "order": order,
                        "x64": x64, "n": rng.randint(2, 7), "m": rng.randint(1, 3),
                        "norm": _loguniform(rng, 1e-3, 50.0), "seedm": rng.randrange(10**9), "cost": 1.5,
                    }
                )
    return out


def _ssm(fact):
    from probdiffeq import probdiffeq

    return {
        "dense": probdiffeq.state_space_model_dense,
        "isotropic": probdiffeq.state_space_model_isotropic,
        "blockdiag": probdiffeq.state_space_model_blockdiag,
    }[fact]()


def _decade(h):
    import math

    return int(math.floor(math.log10(h)))


def _cmp_transition(G, Sig, Phi, Q, tol, tags, what, viols, obs, entrywise=True):
    if entrywise:
        scaleG = np.where(Phi != 0.0, np.abs(Phi), 0.0)
        with np.errstate(divide="ignore", invalid="ignore"):
            relG = np.where(scaleG > 0, np.abs(G - Phi) / np.where(scaleG > 0, scaleG, 1.0), np.where(G == 0.0, 0.0, np.inf))
        eG = float(np.max(relG))
        eQ = util.scaled_cov_err(Sig, Q)
    else:
        eG = float(np.max(np.abs(G - Phi)) / max(np.max(np.abs(Phi)), 1e-300))
        eQ = float(np.max(np.abs(Sig - Q)) / max(np.max(np.abs(Q)), 1e-300))
    obs["max_err_" + what] = max(eG, eQ)
    if not eG <= tol:
        viols.append(util.viol(what + "_matrix", f"transition matrix deviates from the exact one by {eG:.3g} (tol {tol:.1g})", tags=tags))
    if not eQ <= tol:
        viols.append(util.viol(what + "_noise", f"process-noise covariance deviates from the exact one by {eQ:.3g} (tol {tol:.1g})", tags=tags))
    return eG, eQ


def run_case(case):
    import jax.numpy as jnp

    viols, obs, sigs = [], {"cases": 1}, []
    kind = case["kind"]
    if kind == "iwp":
        fact, nu, d = case["fact"], case["nu"], case["d"]
        ssm = _ssm(fact)
        tcoeffs = [jnp.arange(1.0, d + 1.0) * (j + 1) for j in range(nu + 1)]
        base = case["base"]
        if fact == "isotropic":
            base_arg = None if base is None else jnp.asarray(base[0])
            lam = np.full((d,), 1.0 if base is None else base[0])
        else:
            base_arg = None if base is None else jnp.asarray(base)
            lam = np.ones((d,)) if base is None else np.asarray(base)
        prior = ssm.prior_wiener_integrated(tcoeffs, output_scale=base_arg)
        s = case["scale"]
        s_arg = jnp.asarray(s) if fact != "blockdiag" else jnp.full((d,), s)
        one_arg = jnp.asarray(1.0) if fact != "blockdiag" else jnp.ones((d,))
        tags = {"fact": fact, "nu": nu}
        h1, h2 = case["h1"], case["h2"]
        for h in (h1, h2):
            tr = prior.transition(dt=jnp.asarray(h), output_scale=s_arg)
            G, xi, Sig = extract.cond_dense(tr)
            Phi, Q = sde.iwp_dense(nu, Fraction(h), lam * s)
            _cmp_transition(G, Sig, Phi, Q, TOL_IWP, tags, "iwp", viols, obs)
            if np.any(xi != 0.0):
                viols.append(util.viol("iwp_offset", "non-zero transition offset", tags=tags))
        # linearity in the calibrated scale
        tr1 = prior.transition(dt=jnp.asarray(h1), output_scale=one_arg)
        trs = prior.transition(dt=jnp.asarray(h1), output_scale=s_arg)
        _, _, S1 = extract.cond_dense(tr1)
        _, _, Ss = extract.cond_dense(trs)
        e = util.scaled_cov_err(Ss, S1 * s**2)
        if not e <= 1e-12:
            viols.append(util.viol("iwp_linear_scale", f"noise not linear in the output scale ({e:.3g})", tags=tags))
        # composition
        t1 = prior.transition(dt=jnp.asarray(h1), output_scale=s_arg)
        t2 = prior.transition(dt=jnp.asarray(h2), output_scale=s_arg)
        merged = t2.merge(t1)
        Gm, xim, Sm = extract.cond_dense(merged)
        Phi, Q = sde.iwp_dense(nu, Fraction(h1) + Fraction(h2), lam * s)
        _cmp_transition(Gm, Sm, Phi, Q, 10 * TOL_IWP, tags, "iwp_compose", viols, obs)
        obs["iwp_cases"] = 1
        obs["transitions_compared"] = 3
        if nu >= 1:
            sigs.append(f"iwp|{fact}|{nu}|{d}|{_decade(h1)}")
        sample = {"fact": fact, "nu": nu, "d": d, "h1": h1, "h2": h2, "max_err": obs.get("max_err_iwp"), "max_err_compose": obs.get("max_err_iwp_compose")}
        return {"violations": viols, "obs": obs, "sigs": sigs, "sample": sample}

    if kind == "expprior":
        from probdiffeq import probdiffeq

        ssm = _ssm("dense")
        n, d = case["n"], case["d"]
        r = np.random.default_rng(case["seedm"])
        tcoeffs = [jnp.asarray(r.normal(size=(d,))) for _ in range(n)]
        base = case["base"]
        lam = np.ones((d,)) if base is None else np.asarray(base)
        base_arg = None if base is None else jnp.asarray(base)
        shift = np.kron(np.diag(np.ones(n - 1), k=1), np.eye(d)) if n > 1 else np.zeros((d, d))
        A = shift.copy()
        if case["prior"] == "ou":
            L = r.normal(size=(d, d))
            L = L / max(np.abs(L).sum(axis=0).max(), 1e-12)
            prior = ssm.prior_ornstein_uhlenbeck_integrated(lambda u: jnp.asarray(L) @ u, tcoeffs, output_scale=base_arg)
            A[-d:, -d:] = L
        elif case["prior"] == "matern":
            ell = float(r.uniform(0.3, 3.0))
            prior = ssm.prior_matern(ell, tcoeffs, output_scale=base_arg)
            import math

            z = math.sqrt(2 * (n - 0.5)) / ell
            for i in range(n):
                A[-d:, i * d : (i + 1) * d] = -math.comb(n, i) * z ** (n - i) * np.eye(d)
        else:
            W = r.normal(size=(d, n * d))
            W = W / max(np.abs(W).sum(axis=0).max(), 1e-12)
            Wj = jnp.asarray(W)
            ode = probdiffeq.ode_autonomous_order_arbitrary(
                lambda *xs: Wj @ jnp.concatenate(xs), num_tcoeffs_in_args=n
            )
            prior = ssm.prior_exponential(ode, tcoeffs, output_scale=base_arg)
            A[-d:, :] = W
        B = np.kron(np.eye(n)[:, -1:], np.diag(lam))
        normA = max(np.abs(A).sum(axis=0).max(), 1e-12)
        h = case["target"] / normA
        s = case["scale"]
        tags = {"prior": case["prior"], "n": n}
        tr = prior.transition(dt=jnp.asarray(h), output_scale=jnp.asarray(s))
        G, xi, Sig = extract.cond_dense(tr)
        Phi, Q = sde.van_loan(A, s * B, h, dps=90)
        tol = TOL_EXP64 * max(1.0, case["target"])
        _cmp_transition(G, Sig, Phi, Q, tol, tags, "exp", viols, obs, entrywise=False)
        # composition and scale-linearity
        h2 = h * float(r.uniform(0.2, 3.0))
        t1 = prior.transition(dt=jnp.asarray(h), output_scale=jnp.asarray(s))
        t2 = prior.transition(dt=jnp.asarray(h2), output_scale=jnp.asarray(s))
        Gm, _, Sm = extract.cond_dense(t2.merge(t1))
        Phi12, Q12 = sde.van_loan(A, s * B, h + h2, dps=90)
        _cmp_transition(Gm, Sm, Phi12, Q12, 10 * tol * max(1.0, (h + h2) * normA / max(case["target"], 1e-12)), tags, "exp_compose", viols, obs, entrywise=False)
        tr1 = prior.transition(dt=jnp.asarray(h), output_scale=jnp.asarray(1.0))
        _, _, S1 = extract.cond_dense(tr1)
        e = float(np.max(np.abs(Sig - s**2 * S1)) / max(np.max(np.abs(Sig)), 1e-300))
        if not e <= 1e-12:
            viols.append(util.viol("exp_linear_scale", f"noise not linear in the output scale ({e:.3g})", tags=tags))
        obs["exp_prior_cases"] = 1
        obs["transitions_compared"] = 2
        sigs.append(f"exp|{case['prior']}|{n}|{d}|{_decade(case['target'])}")
        sample = {"prior": case["prior"], "n": n, "d": d, "drift_h_norm": case["target"], "max_err": obs.get("max_err_exp")}
        return {"violations": viols, "obs": obs, "sigs": sigs, "sample": sample}

    # raw Pade/Legendre routine
    from probdiffeq.backend import linalg
    from probdiffeq.util import gram_util

    dtype = jnp.float64 if case.get("x64", True) else jnp.float32
    r = np.random.default_rng(case["seedm"])
    n, m = case["n"], case["m"]
    A = r.normal(size=(n, n))
    A = A / np.abs(A).sum(axis=0).max() * case["norm"]
    B = r.normal(size=(n, m))
    A = np.asarray(jnp.asarray(A, dtype=dtype), float)  # the exactly representable inputs
    B = np.asarray(jnp.asarray(B, dtype=dtype), float)
    pl = getattr(gram_util, f"pade_and_legendre_{case['order']}")()
    fn = gram_util.exp_gram_cholesky(pade_legendre=pl, solve=linalg.solve_lu)
    eA, L = fn(jnp.asarray(A, dtype=dtype), jnp.asarray(B, dtype=dtype))
    if eA.dtype != dtype or L.dtype != dtype:
        viols.append(util.viol("gram_dtype", f"output dtype {eA.dtype}/{L.dtype} for input {dtype}", tags={"order": case["order"]}))
    eA, L = np.asarray(eA, float), np.asarray(L, float)
    Phi, Q = sde.van_loan(A, B, 1.0, dps=90)
    x64 = case.get("x64", True)
    tol = (TOL_EXP64 if x64 else TOL_EXP32) * max(1.0, case["norm"])
    if case["order"] == 3:
        # eta is tiny for order 3 -> many doublings, each costing a few ulp (measured 8e-12 / 7e-5)
        tol *= 10.0 if x64 else 5.0
    tags = {"order": case["order"], "dtype": "float64" if x64 else "float32"}
    eG, eQ = _cmp_transition(eA, L @ L.T, Phi, Q, tol, tags, "gram", viols, obs, entrywise=False)
    if np.any(np.triu(L, 1) != 0.0):
        viols.append(util.viol("gram_triangular", "Gramian factor is not lower triangular", tags=tags))
    obs["gram_cases_f64" if x64 else "gram_cases_f32"] = 1
    obs[f"max_err_gram_o{case['order']}_{'f64' if x64 else 'f32'}"] = max(eG, eQ)
    sigs.append(f"gram|{case['order']}|{'f64' if x64 else 'f32'}|{n}|{_decade(case['norm'])}")
    sample = {"order": case["order"], "dtype": tags["dtype"], "n": n, "normA": case["norm"], "err_expm": eG, "err_gramian": eQ}
    return {"violations": viols, "obs": obs, "sigs": sigs, "sample": sample}

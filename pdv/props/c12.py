"""C12 — marginal-likelihood losses equal the exact Gaussian log-density of the data.

Oracle: from the raw fields of the returned backward Markov factorisation we build the dense joint of the
observed rows over all output times (our own code), add the observation noise and evaluate the Gaussian
log-density in 50-digit arithmetic. Relative to the *returned* posterior, hence independent of C03.
"""

import numpy as np

from pdv import configs, extract, poly, util
from pdv.refmodel import mpl

ID = "C12"
LEVEL = "exploration"
RULE = (
    "cases = posterior source (fixed grid + fixed-interval smoother / adaptive checkpoints + fixed-point smoother) x "
    "factorisation x calibration x exact/inexact initial state x 2..12 output times x observed coefficient index 0..nu x "
    "average on/off x noise std log-uniform in [1e-6,1e3] per time (and per dimension where supported) x data near/far "
    "from the mean; both losses per case. non-trivial = >=3 output times and non-constant noise; distinct = (source, "
    "factorisation, calibration, init, coefficient index, average, #times)"
)
ASSUMPTIONS = [
    "joint Gaussian assembled from raw fields by pdv/extract.py; log-density by Gaussian elimination in mpmath",
]
REQUIRED_OBS = {"timeseries_losses": 40, "terminal_losses": 40}
TOL = 1e-7


def cases(tier, seed):
    rng = util.rng_for(ID, tier, seed)
    out = []
    n = 54 if tier == "quick" else 540
    for k in range(n):
        d = rng.randint(1, 3)
        nu = rng.randint(1, 4)
        # planned hostile family: dense model, d >= 2, per-dimension noise levels 8 decades apart at every time point (the
        # innovation factors then have singular values 1e-8 apart: any truncation or regularisation of the small one shows;
        # seed C12-s3 widened the least-squares cutoff to the float32 epsilon)
        spread = (k // 2) % 3 == 0 and (k // 6) % 2 == 0
        if spread:
            d = rng.randint(2, 3)
        field, inits, t0 = poly.random_problem(rng, d=d, nblocks=1, num_coeffs=nu + 1, degree=2, nterms=2, time_dep=rng.random() < 0.5)
        T = rng.randint(2, 12 if tier == "thorough" else 8)
        out.append(
            {
                "id": f"c12-{k}", "source": ["fixedgrid", "checkpoints"][k % 2], "fact": configs.FACTS[(k // 2) % 3],
                "cal": rng.choice(configs.CALS), "ts": rng.choice(["ts0", "ts1"]), "nu": nu, "init": rng.choice(["exact", "inexact"]),
                "T": T, "index": rng.randint(0, nu), "average": rng.random() < 0.5, "per_dim": True if spread else rng.random() < 0.6, "spread": spread,
                "far": rng.random() < 0.3, "span": rng.uniform(0.2, 1.0),
                "field": field.to_json(), "inits": [[str(x) for x in b] for b in inits], "t0": str(t0),
                "seedc": rng.randrange(10**9), "cost": 5.0,
            }
        )
    return out


def _logpdf(y, mean, cov):
    k = len(y)
    ld, maha = mpl.logdet_and_maha(mpl.M(cov) if not isinstance(cov, np.ndarray) or cov.dtype != object else cov, mpl.M(y - mean) if not (isinstance(y, np.ndarray) and y.dtype == object) else y - mean)
    return -(maha + ld + k * mpl.mp.log(2 * mpl.mp.pi)) / 2


def run_case(case):
    import jax
    import jax.numpy as jnp
    from probdiffeq import ivpsolve, probdiffeq

    fact, nu = case["fact"], case["nu"]
    problem = {"name": "poly", "field": case["field"], "inits": case["inits"], "t0": case["t0"]}
    strategy = "fixedinterval" if case["source"] == "fixedgrid" else "fixedpoint"
    cfg = configs.build(fact=fact, strategy=strategy, cal=case["cal"], ts=case["ts"], nu=nu, problem=problem,
                        init=case["init"], inexact_eps=1e-2)
    d, n = cfg["d"], nu + 1
    t0 = cfg["prob"]["t0"]
    r = np.random.default_rng(case["seedc"])
    T = case["T"]
    times = np.concatenate([[t0], t0 + np.sort(r.uniform(0.05, 1.0, size=T - 1)) * case["span"]]) if T > 2 else np.asarray([t0, t0 + case["span"]])
    if case["source"] == "fixedgrid":
        sol = jax.jit(ivpsolve.solve_fixed_grid(solver=cfg["solver"]))(cfg["prior"], grid=jnp.asarray(times))
    else:
        sol = jax.jit(ivpsolve.solve_adaptive_save_at(solver=cfg["solver"], error=cfg["error"], while_loop=configs.bounded_while()))(
            cfg["prior"], jnp.asarray(times), atol=1e-3, rtol=1e-3, dt0=0.05)
    if not configs.adaptive_reached_end(sol, times[-1]):
        raise util.Inconclusive("adaptive run hit its logical step budget")
    if not np.all(np.isfinite(np.asarray(sol.u.mean_flat))) or float(np.max(np.abs(np.asarray(sol.u.mean_flat)))) > 1e4:
        return {"violations": [], "obs": {"cases": 1, "exploded_skipped": 1}, "sigs": []}
    post = sol.solution_full.posterior
    means_mp, cov_mp = extract.markov_joint_mp(post, d)
    idx = case["index"]
    rows = idx * d + np.arange(d)
    M_mp, P_mp = extract.joint_matrix_mp(means_mp, cov_mp, rows)
    M, P = mpl.F(M_mp), mpl.F(P_mp)
    # noise and data
    if fact == "isotropic":
        std = np.exp(r.uniform(np.log(1e-6), np.log(1e3), size=(T,)))
        std_full = np.repeat(std, d)
        std_arg = jnp.asarray(std)
    else:
        std = np.exp(r.uniform(np.log(1e-6), np.log(1e3), size=(T, d))) if case["per_dim"] else np.repeat(np.exp(r.uniform(np.log(1e-6), np.log(1e3), size=(T, 1))), d, axis=1)
        if case.get("spread"):
            std[:, 0] = np.exp(r.uniform(np.log(1e-6), np.log(1e-5), size=T))
            std[:, 1:] = np.exp(r.uniform(np.log(1e2), np.log(1e3), size=(T, d - 1)))
        std_full = std.reshape(-1)
        std_arg = jnp.asarray(std)
    total_std = np.sqrt(np.maximum(np.diag(P), 0) + std_full**2)
    data = M + (5.0 if case["far"] else 1.0) * total_std * r.normal(size=M.shape)
    data_arg = jnp.asarray(data.reshape(T, d))
    viols, obs = [], {"cases": 1}
    tags = {k: case[k] for k in ("source", "fact", "cal", "init", "index", "average")}

    # ---- time-series loss ----------------------------------------------------------------------------------
    loss = probdiffeq.loss_lml_timeseries(average_pdfs=case["average"], tcoeff_index=idx)
    got = float(loss(data_arg, posterior=post, std=std_arg))
    Pm = P_mp + mpl.M(np.diag(std_full)) * mpl.M(np.diag(std_full))
    ref = _logpdf(mpl.M(data), M_mp, Pm)
    ref = float(ref / T) if case["average"] else float(ref)
    err = abs(got - ref) / (abs(ref) + 1e-8) if np.isfinite(got) else float("inf")
    obs["timeseries_losses"] = 1
    obs["max_timeseries_dev"] = err
    # conditioning of the joint: tiny noise next to an exactly known initial state
    cond_hint = float(np.max(total_std) / np.min(total_std))
    # conditioning of the joint in correlation form: the log-density of strongly correlated high-order coefficients over
    # many times is sensitive to rounding in proportion to it
    Cn = (P + np.diag(std_full**2)) / np.outer(total_std, total_std)
    try:
        kappa = float(np.linalg.cond(Cn))
    except np.linalg.LinAlgError:
        kappa = float("inf")
    obs["max_joint_condition"] = kappa
    tol = TOL * max(1.0, cond_hint * 1e-6) + 1e-13 * kappa
    if not err <= tol:
        # measured conditioning of the quantity itself: the 50-digit log-density of the same posterior with every stored
        # number, datum and noise level moved by one unit roundoff (random signs). No float64 algorithm can be more accurate
        # than a modest multiple of that change, so it is added to the tolerance (only evaluated when the cheap bounds fail).
        pr = np.random.default_rng(case["seedc"] + 1)
        u = 2.0**-52
        worst = 0.0
        for _ in range(3):
            post_p = jax.tree.map(lambda x: np.asarray(x, float) * (1.0 + u * pr.choice([-1.0, 1.0], size=np.shape(x))), post)
            mp_p, cov_p = extract.markov_joint_mp(post_p, d)
            M_p, P_p = extract.joint_matrix_mp(mp_p, cov_p, rows)
            sd_p = std_full * (1.0 + u * pr.choice([-1.0, 1.0], size=std_full.shape))
            y_p = data * (1.0 + u * pr.choice([-1.0, 1.0], size=data.shape))
            ref_p = _logpdf(mpl.M(y_p), M_p, P_p + mpl.M(np.diag(sd_p)) * mpl.M(np.diag(sd_p)))
            ref_p = float(ref_p / T) if case["average"] else float(ref_p)
            worst = max(worst, abs(ref_p - ref) / (abs(ref) + 1e-8))
        obs["conditioning_measured"] = 1
        obs["max_measured_sensitivity"] = worst
        tol = tol + util.COND_FACTOR * worst
    if not err <= tol:
        viols.append(util.viol("timeseries_loss", f"loss_lml_timeseries={got!r} but the log-density of the data under the joint smoothing posterior plus noise is {ref!r} (rel {err:.3g})",
                               tags=tags, witness={"times": times, "std": std, "T": T}))
    # the full smoothing solution (with filtering marginals) must give the same value
    # ---- terminal-value loss ---------------------------------------------------------------------------------
    marg = jax.tree.map(lambda s: s[-1], sol.u)
    mT_mp, LT_mp = extract.normal_mp(marg, d)
    mT, PT = mpl.F(mT_mp), mpl.F(mpl.mm(LT_mp, LT_mp.T))
    std_T = std[-1]
    lossT = probdiffeq.loss_lml_terminal_values(tcoeff_index=idx)
    dT = data.reshape(T, d)[-1]
    gotT = float(lossT(jnp.asarray(dT), marginals=marg, std=jnp.asarray(std_T)))
    covT = PT[np.ix_(rows, rows)] + np.diag(np.broadcast_to(np.asarray(std_T, float), (d,)) ** 2)
    refT = float(_logpdf(mpl.M(dT), mpl.M(mT[rows]), mpl.M(covT)))
    errT = abs(gotT - refT) / (abs(refT) + 1e-8) if np.isfinite(gotT) else float("inf")
    obs["terminal_losses"] = 1
    obs["max_terminal_dev"] = errT
    if not errT <= TOL:
        viols.append(util.viol("terminal_loss", f"loss_lml_terminal_values={gotT!r} but the log-density under the terminal marginal plus noise is {refT!r} (rel {errT:.3g})", tags=tags))
    sigs = []
    if T >= 3:
        sigs.append("|".join(str(case[k]) for k in ("source", "fact", "cal", "init", "index", "average", "T")))
    sample = {"config": tags, "T": T, "timeseries": [got, ref], "terminal": [gotT, refT]}
    return {"violations": viols, "obs": obs, "sigs": sigs, "sample": sample}

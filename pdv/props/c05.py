"""C05 — checkpoint values do not depend on the checkpoint set; they interpolate exactly.

Two-pass construction: pass 1 records the natural step ends; pass 2 builds checkpoint sets A subset B that
force the corner layouts (checkpoint at a step end, within eps/2 of it, 2 eps after it, three inside one
step, two closer than eps). Both runs are recorded with proxies, so traces can be compared as well.
"""

import numpy as np

from pdv import configs, extract, poly, record, util
from pdv.props import c03
from pdv.refmodel import floors as floors_mod
from pdv.refmodel import kalman, mpl, rtsref

ID = "C05"
LEVEL = "exploration"
RULE = (
    "cases = random polynomial IVP x factorisation x calibration x TS0/TS1 x {filter, fixed-point smoother} x tol x dt0; "
    "checkpoint sets A subset B with equal endpoints built from the recorded step ends of a first pass so that every "
    "forced layout occurs (at step end / within eps/2 / 2 eps after / three inside one step / pair closer than eps) plus "
    "random points; clip off. Oracles: B restricted to A == A (values, step counts, scales, accepted-step traces); every "
    "checkpoint == reference Gaussian interpolation of the recorded steps; off-grid marginals of a save-every-step run; "
    "terminal-value routine. non-trivial = the case contains >=2 forced layouts; distinct = (config, layouts)"
)
ASSUMPTIONS = [
    "reference interpolation: exact prior transition from the preceding accepted state (filter) / RTS through step "
    "ends united with checkpoints (smoother), scale of the covering step",
]
REQUIRED_OBS = {"subset_pairs": 10, "checkpoints_vs_reference": 60, "layout_at_step_end": 3, "layout_within_eps": 3,
                "layout_after_2eps": 2, "layout_three_inside": 3, "layout_pair_closer_than_eps": 2, "offgrid_compared": 10,
                "terminal_compared": 5}
TOL = 1e-8
EPS = 1e-8
TIMEOUT = {"quick": 1500, "thorough": 3500}


def cases(tier, seed):
    rng = util.rng_for(ID, tier, seed)
    out = []
    n = 32 if tier == "quick" else 256
    for k in range(n):
        d = rng.randint(1, 2)
        nu = rng.randint(1, 4)
        field, inits, t0 = poly.random_problem(rng, d=d, nblocks=1, num_coeffs=nu + 1, degree=2, nterms=2, time_dep=rng.random() < 0.5)
        out.append(
            {
                "id": f"c05-{k}", "fact": configs.FACTS[k % 3], "cal": configs.CALS[(k // 3) % 3], "ts": rng.choice(["ts0", "ts1"]),
                "nu": nu, "strategy": ["filter", "fixedpoint"][(k // 9) % 2] if tier == "thorough" else rng.choice(["filter", "fixedpoint"]),
                "tol": 10 ** rng.uniform(-5, -2), "dt0": 10 ** rng.uniform(-2.5, -0.5), "T": rng.uniform(0.3, 0.8),
                # a controller with memory (proportional-integral) in every other block of nine: whatever the loop carries
                # across a checkpoint must survive it (seed C05-s3 reset the controller at checkpoints on step ends)
                "control": ["integral", "pi"][(k // (18 if tier == "thorough" else 9)) % 2],
                # absolute and relative tolerance differ by orders of magnitude in two of three cases: every routine must hand
                # them on in the right roles (seed C05-s4: the terminal-value routine exchanged them)
                "rtol_factor": [1.0, 1e2, 1e-2][(k + k // 3 + k // 9) % 3],
                "field": field.to_json(), "inits": [[str(x) for x in b] for b in inits], "t0": str(t0),
                "seedc": rng.randrange(10**9), "cost": 15.0,
            }
        )
    return out


def _control(case):
    from probdiffeq import ivpsolve

    return ivpsolve.control_proportional_integral() if case.get("control") == "pi" else ivpsolve.control_integral()


def _record_run(cfg, save_at, case, clip=False):
    import jax
    import jax.numpy as jnp
    from probdiffeq import ivpsolve

    log = record.Log()
    rec = record.RecSolver(log, cfg["solver"], keep_states=True)
    control = _control(case)
    solve = ivpsolve.solve_adaptive_save_at(solver=rec, error=record.RecError(log, cfg["error"]), clip_dt=clip, control=control,
                                            while_loop=record.make_while(log, max_iter=300))
    with jax.disable_jit():
        sol = solve(cfg["prior"], jnp.asarray(save_at), atol=case["tol"], rtol=case["tol"] * case.get("rtol_factor", 1.0), dt0=case["dt0"], eps=EPS)
    states = c03._accepted_states(log, rec)
    trace = [(e["from_t"], e["dt"]) for i, e in enumerate(log.events) if e["ev"] == "step"
             and next((x for x in log.events[i + 1 : i + 3] if x["ev"] == "error"), {"ep": 0})["ep"] >= 1.0]
    kinds = [e["kind"] for e in log.events if e["ev"] == "interp"]
    return sol, states, trace, kinds


def run_case(case):
    import jax
    import jax.numpy as jnp
    from probdiffeq import ivpsolve
    from probdiffeq.util import test_util

    fact, cal, nu = case["fact"], case["cal"], case["nu"]
    problem = {"name": "poly", "field": case["field"], "inits": case["inits"], "t0": case["t0"]}
    cfg = configs.build(fact=fact, strategy=case["strategy"], cal=cal, ts=case["ts"], nu=nu, problem=problem)
    d, n = cfg["d"], nu + 1
    t0 = cfg["prob"]["t0"]
    T1 = t0 + case["T"]
    r = np.random.default_rng(case["seedc"])
    viols, obs = [], {"cases": 1}
    tags = {k: case[k] for k in ("fact", "cal", "ts", "strategy")}
    tags["nu"] = nu
    try:
        _, states0, _, _ = _record_run(cfg, [t0, T1], case)
    except record.BudgetExceeded:
        return {"violations": [], "obs": {"cases": 1, "budget_hits": 1}, "sigs": []}
    ends = [float(s.t) for s in states0[1:] if float(s.t) < T1 - 1e-6]
    if len(ends) < 3:
        return {"violations": [], "obs": {"cases": 1, "too_few_steps": 1}, "sigs": []}
    # ---- build A subset B ------------------------------------------------------------------------------------
    layouts = {}
    picks = list(r.permutation(len(ends)))

    def take():
        return ends[int(picks.pop())] if picks else ends[int(r.integers(0, len(ends)))]

    B_extra, A_extra = set(), set()
    e1 = take(); B_extra.add(e1); layouts["at_step_end"] = [e1]
    e2 = take(); x = e2 + float(r.choice([-1, 1])) * EPS * 0.4; B_extra.add(x); layouts["within_eps"] = [x]
    if case["seedc"] % 20 < 9:
        # a checkpoint just outside eps after a step end: interpolation over a gap of 2e-8
        e3 = take(); x = e3 + 2 * EPS; B_extra.add(x); layouts["after_2eps"] = [x]
    j = int(r.integers(1, len(ends)))
    lo, hi = ends[j - 1], ends[j]
    inside = [lo + (hi - lo) * f for f in (0.2, 0.5, 0.85)]
    B_extra |= set(inside); layouts["three_inside"] = inside
    if (case["seedc"] // 20) % 2 == 0:
        x = t0 + case["T"] * float(r.uniform(0.1, 0.9)); pair = [x, x + EPS * 0.3]
        B_extra |= set(pair); layouts["pair_closer_than_eps"] = pair
    rnd = [t0 + case["T"] * float(u) for u in r.uniform(0.05, 0.95, size=3)]
    B_extra |= set(rnd)
    allB = sorted(B_extra)
    # A: a random half of B's interior points, keeping at least one of each kind where possible
    for name, pts in layouts.items():
        if r.random() < 0.6:
            A_extra.add(pts[0])
    A_extra |= {p for p in rnd if r.random() < 0.5}
    A = sorted({t0, T1} | A_extra)
    B = sorted({t0, T1} | set(allB))
    for name in layouts:
        obs["layout_" + name] = 1
    try:
        solA, statesA, traceA, _ = _record_run(cfg, A, case)
        solB, statesB, traceB, kindsB = _record_run(cfg, B, case)
    except record.BudgetExceeded:
        return {"violations": [], "obs": {"cases": 1, "budget_hits": 1}, "sigs": []}
    if float(np.nanmax(np.abs(np.nan_to_num(np.asarray(solB.u.mean_flat), nan=1e300)))) > 1e4:
        return {"violations": [], "obs": {"cases": 1, "exploded_skipped": 1}, "sigs": []}
    endsB = [float(s_.t) for s_ in statesB]
    gaps, rel_gaps = [], []
    for jx_, t in enumerate(B[1:], start=1):
        if any(abs(e - t) <= EPS for e in endsB):
            continue  # at-checkpoint branch: no interpolation
        prev = max([e for e in endsB if e < t] + [B[jx_ - 1]])
        gaps.append(t - prev)
        a_ = max([e for e in endsB if e < t], default=B[0])
        b_ = min([e for e in endsB if e >= t], default=B[-1])
        rel_gaps.append((t - prev) / max(b_ - a_, 1e-300))
    min_gap = min(gaps) if gaps else 1.0
    min_rel = min(rel_gaps) if rel_gaps else 1.0
    # finding D14: the interpolation over a sub-interval that is tiny relative to its step is ill-conditioned; the loss grows
    # with the order (measured, relative gap -> error of the state: nu=3: 1e-5 -> 3e-8; nu=4: 1e-3 -> 8e-10, 1e-4 -> 1e-6;
    # the highest coefficients lose several digits more). Tagged by the measured geometry of this run.
    rel_limit = {0: 0.0, 1: 0.0, 2: 0.0, 3: 1e-3}.get(nu, 1e-2)
    tiny = bool(min_gap < 1e-5 or min_rel < rel_limit)
    tags["tiny_gap_after_step_end"] = tiny
    obs["cases_with_tiny_gap"] = int(tiny)
    obs["min_relative_gap_after_node"] = float(min_rel)
    obs["interp_at_branch"] = sum(1 for k in kindsB if k == "at")
    obs["interp_fwd_branch"] = sum(1 for k in kindsB if k == "fwd")

    # ---- (a) B restricted to A equals A ---------------------------------------------------------------------------
    obs["subset_pairs"] = 1
    if traceA != traceB:
        first = next((i for i, (p, q) in enumerate(zip(traceA, traceB)) if p != q), min(len(traceA), len(traceB)))
        viols.append(util.viol("subset_trace", f"accepted-step traces differ between checkpoint sets (first difference at accepted step {first}: "
                                               f"{traceA[first] if first < len(traceA) else None} vs {traceB[first] if first < len(traceB) else None})", tags=tags))
    idxB = [B.index(t) for t in A]
    sc_max = float(np.max(np.asarray(solA.output_scale, float))) if cal != "solver" else 1.0
    flA = floors_mod.floors_for_grid(nu, d, A, scale=sc_max)

    def dev(m1, P1, m2, P2, fl_):
        sd = np.maximum(np.sqrt(np.maximum(np.diag(P2), 0.0)), fl_)
        e_m = float(np.max(np.abs(m1 - m2) / (np.abs(m2) + sd + 1e-300)))
        e_c = float(np.max(np.abs(P1 - P2) / np.outer(sd, sd)))
        return e_m, e_c

    for ia, ib in enumerate(idxB):
        ma, Pa = extract.normal_dense(extract.tree_index(solA.u, ia))
        mb, Pb = extract.normal_dense(extract.tree_index(solB.u, ib))
        em, ec = dev(mb, Pb, ma, Pa, flA[ia])
        obs["max_dev_subset"] = max(obs.get("max_dev_subset", 0.0), em, ec)
        # two eager runs with different interpolation nodes: rounding grows with the order (measured 1.1e-8 at nu = 3)
        tol_s = 1e-8 if nu <= 2 else (1e-7 if nu == 3 else 1e-6)
        if not (em <= tol_s and ec <= tol_s):
            viols.append(util.viol("subset_values", f"checkpoint t={A[ia]}: value depends on the other checkpoints (mean/cov differ by {em:.3g}/{ec:.3g})", tags=tags,
                                   witness={"t": A[ia], "A": A, "B": B, "layouts": layouts}))
            break
    nsA, nsB = np.asarray(solA.num_steps), np.asarray(solB.num_steps)
    if not np.array_equal(nsA, nsB[[i - 1 for i in idxB[1:]]]):
        viols.append(util.viol("subset_num_steps", f"step counts differ: {nsA.tolist()} vs {nsB[[i - 1 for i in idxB[1:]]].tolist()}", tags=tags))
    scA, scB = np.asarray(solA.output_scale, float), np.asarray(solB.output_scale, float)
    offA, offB = len(A) - scA.shape[0], len(B) - scB.shape[0]
    selB = [i - offB for i in idxB[offA:]]
    if util.rel_err(scB[selB], scA, floor=1e-300) > 1e-10:
        viols.append(util.viol("subset_output_scale", f"output scales differ: {scA.tolist()} vs {scB[selB].tolist()}", tags=tags))

    # ---- (b) every checkpoint of B equals the reference interpolation of the recorded steps -----------------------------
    model = kalman.Model(field=cfg["prob"]["field"], fact=fact, ts=case["ts"], nu=nu, d=d, base=None, damp=0.0)
    obs_times = [float(s.t) for s in statesB]
    filt = [c03._mp_marginal(s.u) for s in statesB]
    if cal == "dynamic":
        sigmas = [None] + [c03._sig(np.asarray(s.output_scale, float), d, fact) for s in statesB[1:]]
    else:
        sigmas = [None] + [c03._sig(1.0, d, fact)] * (len(statesB) - 1)
    fs = c03._sig(scB[-1], d, fact) if cal == "mle" else None
    if case["strategy"] == "fixedpoint":
        Cchk = c03._judge({**case, "damp": 0.0}, cfg, solB, obs_times, filt, sigmas, fs, "beyond_t1" if obs_times[-1] > T1 + EPS else "at_t1",
                          {**tags, "route": "checkpoints"})
        viols += Cchk.viols
        obs["checkpoints_vs_reference"] = Cchk.obs.get("marginals_compared", 0)
        obs["max_dev_interpolation"] = Cchk.obs.get("max_dev_smoothing_marginal", 0.0)
    else:
        floors = c03._std_floors(model, B, sigmas, obs_times, fs, n, d)
        chk = c03._Check(tags)
        for jx, t in enumerate(B):
            k_at = next((k for k, tk in enumerate(obs_times) if abs(tk - t) <= EPS), None)
            if k_at is not None:
                m_ref, P_ref = filt[k_at]
            else:
                k = max(kk for kk, tk in enumerate(obs_times) if tk < t)
                Phi, Q = model.transition(t - obs_times[k])
                Q = kalman.scale_cov(Q, sigmas[min(k + 1, len(sigmas) - 1)], n, d)
                m_ref, P_ref = mpl.mm(Phi, filt[k][0]), mpl.mm(Phi, filt[k][1], Phi.T) + Q
            if fs is not None:
                P_ref = kalman.scale_cov(P_ref, fs, n, d)
            m, L = extract.normal_sqrt_dense(extract.tree_index(solB.u, jx))
            ok = chk.cmp("filter_interpolation", m, L @ L.T, m_ref, P_ref, tol=1e-8, witness={"t": t, "index": jx}, std_floor=floors[jx])
            obs["checkpoints_vs_reference"] = obs.get("checkpoints_vs_reference", 0) + 1
            if not ok:
                break
        viols += chk.viols
        obs["max_dev_interpolation"] = chk.obs.get("max_dev_filter_interpolation", 0.0)

    # ---- (c) off-grid marginals of a save-every-step run -------------------------------------------------------------
    strat_es = "filter" if case["strategy"] == "filter" else "fixedinterval"
    cfg_es = configs.build(fact=fact, strategy=strat_es, cal=cal, ts=case["ts"], nu=nu, problem=problem)
    sol_es = configs.save_every_step(cfg_es["solver"], cfg_es["error"], clip_dt=False, control=_control(case), inner_budget=500, max_steps=2000)(
        cfg_es["prior"], t0, T1, atol=case["tol"], rtol=case["tol"] * case.get("rtol_factor", 1.0), dt0=case["dt0"], eps=EPS)
    if sol_es is None or not configs.adaptive_reached_end(sol_es, np.asarray(sol_es.t)[-1]):
        return {"violations": viols, "obs": {**obs, "budget_hits": 1}, "sigs": []}
    grid_es = np.asarray(sol_es.t, float)
    for jx, t in enumerate(B[1:-1], start=1):
        if np.min(np.abs(grid_es - t)) <= 10 * EPS:
            continue
        og = cfg_es["solver"].offgrid_marginals(jnp.asarray(t), solution=sol_es)
        mo, Po = extract.normal_dense(og)
        mb, Pb = extract.normal_dense(extract.tree_index(solB.u, jx))
        # floors: a checkpoint a tiny gap behind a step end has variances far below anything float64 resolves next to the
        # state itself; the floor is taken from the covering *step* as well as from the checkpoint spacing
        k_es = min(int(np.searchsorted(grid_es, t)), len(grid_es) - 1)
        fl_og = np.maximum(floors_mod.floors_for_grid(nu, d, B, scale=sc_max)[jx], floors_mod.floors_for_grid(nu, d, list(grid_es), scale=sc_max)[max(k_es, 1)])
        em, ec = dev(mo, Po, mb, Pb, fl_og)
        obs["offgrid_compared"] = obs.get("offgrid_compared", 0) + 1
        obs["max_dev_offgrid"] = max(obs.get("max_dev_offgrid", 0.0), em, ec)
        # a prediction over a gap of 2e-8 runs through a Taylor preconditioner of 1e-35: its covariance keeps ~5 digits at
        # nu = 4 in either route (measured 2e-5 between the two); means are unaffected
        gap_here = float(t - max([e for e in grid_es if e < t] + [B[jx - 1]]))  # previous node: step end or previous checkpoint
        # calibrated runs at nu >= 4: the scale estimate is a mean over whitened residuals that are partly rounding noise; the
        # eager recorded run and the jitted save-every-step run round differently (measured 2e-5 on the covariance, MLE, nu = 4)
        tol_og = (1e-4 if (nu >= 4 and (gap_here < 1e-5 or cal != "solver")) else (1e-6 if nu <= 3 else 1e-5))  # two float64 runs (fixed-interval vs fixed-point): measured <= 3e-7 (nu <= 3), 1.4e-6 (nu = 4)
        if gap_here < 1e-5:
            # covariances predicted over a gap of 1e-7..1e-8 are noise-level in both routes (variances of 1e-26 next to
            # floors of 1e-26): only the means are judged there (counted)
            obs["offgrid_tiny_gap_cov_not_judged"] = obs.get("offgrid_tiny_gap_cov_not_judged", 0) + 1
            ec = 0.0
        if not (em <= tol_og and ec <= tol_og):
            viols.append(util.viol("offgrid_marginals", f"offgrid_marginals(t={t}) of the save-every-step run differs from the checkpoint value ({em:.3g}/{ec:.3g})", tags=tags))
            break

    # ---- (d) terminal-value routine ------------------------------------------------------------------------------------
    for clip in (False, True):
        term = jax.jit(ivpsolve.solve_adaptive_terminal_values(solver=cfg["solver"], error=cfg["error"], clip_dt=clip, control=_control(case), while_loop=configs.bounded_while()))(
            cfg["prior"], t0=t0, t1=T1, atol=case["tol"], rtol=case["tol"] * case.get("rtol_factor", 1.0), dt0=case["dt0"], eps=EPS)
        mt, Pt = extract.normal_dense(term.u)
        if clip:
            two = jax.jit(ivpsolve.solve_adaptive_save_at(solver=cfg["solver"], error=cfg["error"], clip_dt=True, control=_control(case), while_loop=configs.bounded_while()))(
                cfg["prior"], jnp.asarray([t0, T1]), atol=case["tol"], rtol=case["tol"] * case.get("rtol_factor", 1.0), dt0=case["dt0"], eps=EPS)
            mr, Pr = extract.normal_dense(extract.tree_index(two.u, 1))
        else:
            mr, Pr = extract.normal_dense(extract.tree_index(solB.u, len(B) - 1))
        em, ec = dev(mt, Pt, mr, Pr, floors_mod.floors_for_grid(nu, d, B, scale=sc_max)[-1])
        obs["terminal_compared"] = obs.get("terminal_compared", 0) + 1
        obs["max_dev_terminal"] = max(obs.get("max_dev_terminal", 0.0), em, ec)
        # jit vs eager, different interpolation nodes: dynamic scale estimates differ by their rounding sensitivity
        # (measured: 6e-6 for dynamic calibration at nu = 4)
        # nu >= 4: the same two-float64-routes allowance as the off-grid comparison above (1e-5; quick seed 5 measured 1.3e-6 on the
        # covariance of an uncalibrated nu = 4 filter whose checkpoint run interpolates from a node a tiny gap after a step end)
        tol_t = (1e-5 if nu >= 4 else 1e-6) if (cal == "dynamic" or nu >= 4) else 1e-8
        if not (em <= tol_t and ec <= tol_t):
            viols.append(util.viol("terminal_values", f"terminal-value routine (clip={clip}) differs from the last checkpoint entry ({em:.3g}/{ec:.3g})", tags=tags))
    sigs = ["|".join(str(tags[k]) for k in ("fact", "cal", "ts", "strategy", "nu")) + "|" + "+".join(sorted(layouts))]
    sample = {"config": tags, "A": A, "B": B, "layouts": layouts, "accepted_steps": len(traceB),
              "deviations": {k: v for k, v in obs.items() if k.startswith("max_dev")}}
    return {"violations": viols, "obs": obs, "sigs": sigs, "sample": sample}

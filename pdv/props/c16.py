"""C16 — automatic derivatives equal the true derivatives of the computed outputs.

Per output group (means / stds / output scale / terminal loss / time-series loss) and per parameter
(vector-field parameter, initial value, prior base scale, noise level) the forward-mode derivative, the
reverse-mode derivative and Richardson-extrapolated central differences of the *computed* output are
compared. Witnesses name the group and the parameter.
"""

import math

import numpy as np

from pdv import configs, util

ID = "C16"
LEVEL = "exploration"
RULE = (
    "cases = factorisation x calibration (dynamic only with stop_gradient_through_calibration=False) x strategy x TS0/TS1 x "
    "exact/inexact initial state x equal/unequal noise levels on a parametrised nonlinear problem and fixed grid; for every "
    "(output group, parameter) pair that the configuration defines: jvp, grad, Richardson differences. non-trivial = "
    "derivative magnitude > 1e-8 relative; distinct = (configuration, group, parameter)"
)
ASSUMPTIONS = [
    "Richardson-extrapolated central differences in float64 (two step sizes; their disagreement is the error bar) are the "
    "reference for the derivative of the computed quantity",
    "no functional touches a quantity that is exactly zero and non-differentiable there (std of an exact initial state at t0)",
]
REQUIRED_OBS = {"derivative_triples": 60, "reverse_mode_taken": 40, "groups_mean": 10, "groups_std": 10, "groups_loss_terminal": 5, "groups_loss_timeseries": 3}
TIMEOUT = {"quick": 1800, "thorough": 3500}
GRID = [0.0, 0.08, 0.2, 0.27, 0.4]


def cases(tier, seed):
    rng = util.rng_for(ID, tier, seed)
    combos = [(f, c, st, ts) for ts in ("ts1", "ts0") for f in configs.FACTS for c in configs.CALS for st in ("filter", "fixedinterval")]
    if tier == "quick":
        # all 18 first-order-linearisation configurations (they exercise the Jacobian path) + 6 rotating TS0 ones
        ts0 = combos[18:]
        rng.shuffle(ts0)
        chosen = combos[:18] + ts0[:6]
    else:
        chosen = combos * 6
    out = []
    for k, (fact, cal, strategy, ts) in enumerate(chosen):
        out.append(
            {
                "id": f"c16-{k}", "fact": fact, "cal": cal, "strategy": strategy, "ts": ts,
                "init": rng.choice(["exact", "inexact"]), "equal_noise": rng.random() < 0.5, "nu": rng.randint(1, 3),
                "theta": {"a": rng.uniform(0.5, 1.5), "b": rng.uniform(0.2, 0.8), "u0": rng.uniform(0.6, 1.4), "base": rng.uniform(0.5, 2.0), "noise": rng.uniform(0.05, 0.3)},
                "seedw": rng.randrange(10**9), "cost": 30.0, "all_reverse": tier == "thorough", "exact_first_datum": k % 2 == 1, "relin": (k // 2) % 2 == 1,
            }
        )
    return out


def _groups(case):
    groups = ["mean", "std", "loss_terminal"]
    if case["cal"] in ("mle", "dynamic"):
        groups.append("scale")
    if case["strategy"] == "fixedinterval":
        groups.append("loss_timeseries")
    return groups


def _build_F(case, param, only=None):
    """Vector-valued function of one parameter (others fixed at case['theta']): one entry per output group
    (or the scalar of the single group ``only``: reverse mode is taken per group, because a NaN cotangent path of
    one output would otherwise poison the others through 0*NaN - an artefact of stacking, not of the library)."""
    import jax
    import jax.numpy as jnp
    from probdiffeq import ivpsolve, probdiffeq

    fact, cal, nu = case["fact"], case["cal"], case["nu"]
    th0 = dict(case["theta"])
    r = np.random.default_rng(case["seedw"])
    T = len(GRID)
    w_mean = jnp.asarray(r.normal(size=(T - 1, 2)))
    w_std = jnp.asarray(r.uniform(0.5, 1.5, size=(T - 1, 2)))
    data_T = jnp.asarray(r.normal(size=(2,)) * 0.1 + 0.5)
    data_ts = np.asarray(r.normal(size=(T, 2)) * 0.1 + 0.5)
    if case.get("exact_first_datum"):
        # the first datum coincides exactly with the (exactly known) initial value: the whitened residual of that term is
        # exactly zero, where the log-density is smooth but a norm-based implementation is not (seed C16-s3)
        data_ts[0] = float(th0["u0"]) * np.asarray([1.0, 0.5])
    data_ts = jnp.asarray(data_ts)
    # equal noise: identical over time *and* dimensions (the situation of repeated singular values)
    noise_t = jnp.ones((T,)) if case["equal_noise"] else jnp.asarray(r.uniform(0.7, 1.4, size=(T,)))
    noise_d = jnp.asarray([1.0, 1.0]) if case["equal_noise"] else jnp.asarray([1.0, 1.3])
    groups = _groups(case) if only is None else [only]

    def F(x):
        th = dict(th0)
        th[param] = x
        a, b = th["a"], th["b"]

        def f(u, *, t):
            return -a * u + b * jnp.sin(u[::-1]) * jnp.cos(t)

        ode = probdiffeq.ode(f, jacobian=probdiffeq.jacobian_materialize())
        u0 = th["u0"] * jnp.asarray([1.0, 0.5])
        tc, _ = probdiffeq.jetexpand_ode_padded_scan(num=nu)(ode, (u0,), t=0.0)
        ssm = configs.ssm_of(fact)
        base = th["base"] if fact == "isotropic" else th["base"] * jnp.asarray([1.0, 0.7])
        prior = ssm.prior_wiener_integrated(tc, output_scale=base, is_exact=case["init"] == "exact", inexact_eps=1e-2)
        cst = ssm.constraint_ode_ts0(ode) if case["ts"] == "ts0" else ssm.constraint_ode_ts1(ode)
        strat = probdiffeq.strategy_filter() if case["strategy"] == "filter" else probdiffeq.strategy_smoother_fixedinterval()
        if cal == "solver":
            solver = probdiffeq.solver(strategy=strat, constraint=cst)
        elif cal == "mle":
            solver = probdiffeq.solver_mle(strategy=strat, constraint=cst)
        else:
            # both options of the dynamic solver are planned independently (seed C16-s4 wired one to the other)
            solver = probdiffeq.solver_dynamic(strategy=strat, constraint=cst, stop_gradient_through_calibration=False,
                                               re_linearize_after_calibration=bool(case.get("relin", False)))
        sol = ivpsolve.solve_fixed_grid(solver=solver)(prior, grid=jnp.asarray(GRID))
        noise = th["noise"]
        out = []
        for group in groups:
            if group == "mean":
                out.append(jnp.sum(w_mean * sol.u.mean[0][1:]) + 0.1 * jnp.sum(w_mean * sol.u.mean[1][1:]))
            elif group == "std":
                sd = sol.u.std[0][1:]
                sd = sd[:, None] * jnp.ones((1, 2)) if sd.ndim == 1 else sd
                out.append(jnp.sum(w_std * sd))
            elif group == "scale":
                out.append(jnp.sum(sol.output_scale[-1]))
            elif group == "loss_terminal":
                marg = jax.tree.map(lambda s_: s_[-1], sol.u)
                std = noise if fact == "isotropic" else noise * noise_d
                out.append(probdiffeq.loss_lml_terminal_values()(data_T, marginals=marg, std=std))
            else:
                std = noise * noise_t if fact == "isotropic" else noise * noise_t[:, None] * noise_d[None, :]
                out.append(probdiffeq.loss_lml_timeseries()(data_ts, posterior=sol.solution_full.posterior, std=std))
        return jnp.stack(out) if only is None else out[0]

    return F, groups


def run_case(case):
    import jax

    viols, obs, sigs = [], {"cases": 1}, []
    worst = {}
    for param in ("a", "u0", "base", "noise"):
        F, groups = _build_F(case, param)
        x0 = float(case["theta"][param])
        Fj = jax.jit(F)
        f0 = np.asarray(Fj(x0), float)
        fwd = np.asarray(jax.jit(lambda x: jax.jvp(F, (x,), (1.0,))[1])(x0), float)
        # reverse mode per group (separate scalar functions); the quick tier rotates through two groups per parameter
        rev = np.full(len(groups), np.nan)
        rev_done = np.zeros(len(groups), dtype=bool)
        pidx = ("a", "u0", "base", "noise").index(param)
        chosen = range(len(groups)) if case.get("all_reverse") else [(pidx * 2 + j + case["seedw"]) % len(groups) for j in range(2)]
        if param == "noise":
            chosen = [gi for gi, g in enumerate(groups) if g.startswith("loss")]
        for gi in chosen:
            Fg, _ = _build_F(case, param, only=groups[gi])
            rev[gi] = float(jax.jit(jax.grad(Fg))(x0))
            rev_done[gi] = True
        h = 2e-3 * max(1.0, abs(x0))

        def D(hh):
            return (np.asarray(Fj(x0 + hh), float) - np.asarray(Fj(x0 - hh), float)) / (2 * hh)

        d1, d2, d3 = D(h), D(h / 2), D(h / 4)
        r1, r2 = (4 * d2 - d1) / 3, (4 * d3 - d2) / 3
        for gi, group in enumerate(groups):
            if param == "noise" and not group.startswith("loss"):
                continue  # the noise level only enters the losses
            tags = {"fact": case["fact"], "cal": case["cal"], "strategy": case["strategy"], "ts": case["ts"], "init": case["init"],
                    "equal_noise": case["equal_noise"], "group": group, "param": param}
            obs["derivative_triples"] = obs.get("derivative_triples", 0) + 1
            obs["groups_" + group] = obs.get("groups_" + group, 0) + 1
            v0, vf = float(f0[gi]), float(fwd[gi])
            vr = float(rev[gi]) if rev_done[gi] else vf  # reverse not taken for this pair in this run
            obs["reverse_mode_taken"] = obs.get("reverse_mode_taken", 0) + int(rev_done[gi])
            if not math.isfinite(v0):
                viols.append(util.viol("value_finite", f"{group}: value {v0!r}", tags=tags))
                continue
            if not (math.isfinite(vf) and math.isfinite(vr)):
                viols.append(util.viol("derivative_finite", f"d {group} / d {param}: forward {vf!r}, reverse {vr!r} (value {v0:.6g})",
                                       tags={**tags, "fwd_finite": math.isfinite(vf), "rev_finite": math.isfinite(vr)}))
                continue
            fd = float(r2[gi])
            bar = abs(float(r2[gi] - r1[gi])) + 1e-10 * abs(v0) / h
            nat = abs(v0) / max(abs(x0), 1e-3)  # natural derivative scale; derivatives far below it are rounding noise
            scale = abs(fd) + 1e-8 * nat + 1e-300
            e_fr = abs(vf - vr) / (abs(vr) + 1e-2 * nat + 1e-300)
            e_fd = max(abs(vf - fd), abs(vr - fd)) / scale
            worst[f"{group}/{param}"] = e_fd
            obs["max_fwd_rev_dev"] = max(obs.get("max_fwd_rev_dev", 0.0), e_fr)
            if e_fr > 1e-8:
                viols.append(util.viol("forward_vs_reverse", f"d {group} / d {param}: forward {vf!r} vs reverse {vr!r}", tags=tags))
            tol = 1e-5 + 10 * bar / scale
            if e_fd > tol:
                zero_ad = abs(vf) <= 1e-12 * (abs(fd) + 1e-300) + 1e-300
                viols.append(
                    util.viol(
                        "ad_vs_finite_differences",
                        f"d {group} / d {param}: AD gives {vf!r} (reverse {vr!r}) but Richardson differences give {fd!r} +- {bar:.2g} (rel dev {e_fd:.3g})",
                        tags={**tags, "ad_exactly_zero": bool(zero_ad), "rel_dev": e_fd},
                        witness={"value": v0, "x0": x0, "differences": [float(d1[gi]), float(d2[gi]), float(d3[gi])]},
                    )
                )
            if abs(fd) > 1e-8 * (abs(v0) + 1e-12):
                sigs.append(f"{case['fact']}|{case['cal']}|{case['strategy']}|{case['ts']}|{case['init']}|{group}|{param}")
    obs["max_ad_fd_dev"] = max(worst.values()) if worst else 0.0
    sample = {"config": {k: case[k] for k in ("fact", "cal", "strategy", "ts", "init", "equal_noise", "nu")}, "rel_dev_per_pair": worst}
    return {"violations": viols, "obs": obs, "sigs": sigs, "sample": sample}

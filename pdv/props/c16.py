"""C16 — automatic derivatives equal the true derivatives of the computed outputs.

Per output group (means / stds / output scale / terminal loss / time-series loss) and per parameter
(vector-field parameter, initial value, prior base scale, noise level) the forward-mode derivative, the
reverse-mode derivative and Richardson-extrapolated central differences of the *computed* output are
compared. Witnesses name the group and the parameter.
"""

import math

import numpy as np

from pdv import configs, util

ID = "C16"
LEVEL = "exploration"
RULE = (
    "cases = factorisation x calibration (dynamic only with stop_gradient_through_calibration=False) x strategy x TS0/TS1 x "
    "exact/inexact initial state x equal/unequal noise levels on a parametrised nonlinear problem and fixed grid; for every "
    "(output group, parameter) pair that the configuration defines: jvp, grad, Richardson differences. non-trivial = "
    "derivative magnitude > 1e-8 relative; distinct = (configuration, group, parameter)"
)
ASSUMPTIONS = [
    "Richardson-extrapolated central differences in float64 (two step sizes; their disagreement is the error bar) are the "
    "reference for the derivative of the computed quantity",
    "no functional touches a quantity that is exactly zero and non-differentiable there (std of an exact initial state at t0)",
]
REQUIRED_OBS = {"derivative_triples": 60, "groups_mean": 10, "groups_std": 10, "groups_loss_terminal": 5, "groups_loss_timeseries": 3}
TIMEOUT = {"quick": 1800, "thorough": 3500}
GRID = [0.0, 0.08, 0.2, 0.27, 0.4]


def cases(tier, seed):
    rng = util.rng_for(ID, tier, seed)
    out = []
    n = 36 if tier == "quick" else 216
    for k in range(n):
        out.append(
            {
                "id": f"c16-{k}", "fact": configs.FACTS[k % 3], "cal": configs.CALS[(k // 3) % 3],
                "strategy": ["filter", "fixedinterval"][(k // 9) % 2], "ts": ["ts0", "ts1"][(k // 18) % 2] if tier == "thorough" else rng.choice(["ts0", "ts1"]),
                "init": rng.choice(["exact", "inexact"]), "equal_noise": rng.random() < 0.5, "nu": rng.randint(1, 3),
                "theta": {"a": rng.uniform(0.5, 1.5), "b": rng.uniform(0.2, 0.8), "u0": rng.uniform(0.6, 1.4), "base": rng.uniform(0.5, 2.0), "noise": rng.uniform(0.05, 0.3)},
                "seedw": rng.randrange(10**9), "cost": 30.0,
            }
        )
    return out


def _build_F(case, group, param):
    """Scalar function of one parameter (others fixed at case['theta'])."""
    import jax
    import jax.numpy as jnp
    from probdiffeq import ivpsolve, probdiffeq

    fact, cal, nu = case["fact"], case["cal"], case["nu"]
    th0 = dict(case["theta"])
    r = np.random.default_rng(case["seedw"])
    T = len(GRID)
    w_mean = jnp.asarray(r.normal(size=(T - 1, 2)))
    w_std = jnp.asarray(r.uniform(0.5, 1.5, size=(T - 1, 2)))
    data_T = jnp.asarray(r.normal(size=(2,)) * 0.1 + 0.5)
    data_ts = jnp.asarray(r.normal(size=(T, 2)) * 0.1 + 0.5)
    noise_shape = jnp.ones((T,)) if case["equal_noise"] else jnp.asarray(r.uniform(0.7, 1.4, size=(T,)))

    def F(x):
        th = dict(th0)
        th[param] = x
        a, b = th["a"], th["b"]

        def f(u, *, t):
            return -a * u + b * jnp.sin(u[::-1]) * jnp.cos(t)

        ode = probdiffeq.ode(f, jacobian=probdiffeq.jacobian_materialize())
        u0 = th["u0"] * jnp.asarray([1.0, 0.5])
        tc, _ = probdiffeq.jetexpand_ode_padded_scan(num=nu)(ode, (u0,), t=0.0)
        ssm = configs.ssm_of(fact)
        base = th["base"] if fact == "isotropic" else th["base"] * jnp.asarray([1.0, 0.7])
        prior = ssm.prior_wiener_integrated(tc, output_scale=base, is_exact=case["init"] == "exact", inexact_eps=1e-2)
        cst = ssm.constraint_ode_ts0(ode) if case["ts"] == "ts0" else ssm.constraint_ode_ts1(ode)
        strat = probdiffeq.strategy_filter() if case["strategy"] == "filter" else probdiffeq.strategy_smoother_fixedinterval()
        if cal == "solver":
            solver = probdiffeq.solver(strategy=strat, constraint=cst)
        elif cal == "mle":
            solver = probdiffeq.solver_mle(strategy=strat, constraint=cst)
        else:
            solver = probdiffeq.solver_dynamic(strategy=strat, constraint=cst, stop_gradient_through_calibration=False)
        sol = ivpsolve.solve_fixed_grid(solver=solver)(prior, grid=jnp.asarray(GRID))
        if group == "mean":
            return jnp.sum(w_mean * sol.u.mean[0][1:]) + 0.1 * jnp.sum(w_mean * sol.u.mean[1][1:])
        if group == "std":
            s = sol.u.std[0][1:]
            s = s[:, None] * jnp.ones((1, 2)) if s.ndim == 1 else s
            return jnp.sum(w_std * s)
        if group == "scale":
            return jnp.sum(sol.output_scale[-1])
        noise = th["noise"]
        if group == "loss_terminal":
            marg = jax.tree.map(lambda s: s[-1], sol.u)
            std = noise if fact == "isotropic" else noise * jnp.asarray([1.0, 1.3])
            return probdiffeq.loss_lml_terminal_values()(data_T, marginals=marg, std=std)
        if group == "loss_timeseries":
            std = noise * noise_shape if fact == "isotropic" else noise * noise_shape[:, None] * jnp.asarray([[1.0, 1.3]])
            return probdiffeq.loss_lml_timeseries()(data_ts, posterior=sol.solution_full.posterior, std=std)
        raise ValueError(group)

    return F


def _pairs(case):
    groups = ["mean", "std", "loss_terminal"]
    if case["cal"] in ("mle", "dynamic"):
        groups.append("scale")
    if case["strategy"] == "fixedinterval":
        groups.append("loss_timeseries")
    out = []
    for g in groups:
        params = ["a", "u0", "base"]
        if g.startswith("loss"):
            params.append("noise")
        for p in params:
            out.append((g, p))
    return out


def run_case(case):
    import jax

    viols, obs, sigs = [], {"cases": 1}, []
    pairs = _pairs(case)
    # a rotating subset keeps the quick tier affordable; the thorough tier runs all pairs
    r = np.random.default_rng(case["seedw"] + 1)
    if len(pairs) > 6:
        idx = sorted(r.choice(len(pairs), size=6, replace=False))
        pairs = [pairs[i] for i in idx]
    worst = {}
    for group, param in pairs:
        F = _build_F(case, group, param)
        x0 = float(case["theta"][param])
        Fj = jax.jit(F)
        tags = {"fact": case["fact"], "cal": case["cal"], "strategy": case["strategy"], "ts": case["ts"], "init": case["init"],
                "equal_noise": case["equal_noise"], "group": group, "param": param}
        f0 = float(Fj(x0))
        fwd = float(jax.jit(lambda x: jax.jvp(F, (x,), (1.0,))[1])(x0))
        rev = float(jax.jit(jax.grad(F))(x0))
        obs["derivative_triples"] = obs.get("derivative_triples", 0) + 1
        obs["groups_" + group] = obs.get("groups_" + group, 0) + 1
        if not (math.isfinite(f0)):
            viols.append(util.viol("value_finite", f"{group}: value {f0!r}", tags=tags))
            continue
        finite = math.isfinite(fwd) and math.isfinite(rev)
        if not finite:
            viols.append(util.viol("derivative_finite", f"d {group} / d {param}: forward {fwd!r}, reverse {rev!r} (value {f0:.6g})", tags={**tags, "fwd_finite": math.isfinite(fwd), "rev_finite": math.isfinite(rev)}))
            continue
        # Richardson central differences
        h = 2e-3 * max(1.0, abs(x0))

        def D(hh):
            return (float(Fj(x0 + hh)) - float(Fj(x0 - hh))) / (2 * hh)

        d1, d2, d3 = D(h), D(h / 2), D(h / 4)
        r1, r2 = (4 * d2 - d1) / 3, (4 * d3 - d2) / 3
        fd = r2
        bar = abs(r2 - r1) + 1e-10 * abs(f0) / h
        scale = abs(fd) + 1e-8 * abs(f0) / max(abs(x0), 1e-3) + 1e-300
        nat = abs(f0) / max(abs(x0), 1e-3)  # natural derivative scale; derivatives far below it are rounding noise
        e_fr = abs(fwd - rev) / (abs(rev) + 1e-2 * nat + 1e-300)
        e_fd = max(abs(fwd - fd), abs(rev - fd)) / scale
        worst[f"{group}/{param}"] = e_fd
        obs["max_fwd_rev_dev"] = max(obs.get("max_fwd_rev_dev", 0.0), e_fr)
        if e_fr > 1e-8:
            viols.append(util.viol("forward_vs_reverse", f"d {group} / d {param}: forward {fwd!r} vs reverse {rev!r}", tags=tags))
        tol = 1e-5 + 10 * bar / scale
        if e_fd > tol:
            zero_ad = abs(fwd) <= 1e-12 * (abs(fd) + 1e-300) + 1e-300
            viols.append(
                util.viol(
                    "ad_vs_finite_differences",
                    f"d {group} / d {param}: AD gives {fwd!r} (reverse {rev!r}) but Richardson differences give {fd!r} +- {bar:.2g} (rel dev {e_fd:.3g})",
                    tags={**tags, "ad_exactly_zero": bool(zero_ad), "rel_dev": e_fd},
                    witness={"value": f0, "x0": x0, "differences": [d1, d2, d3]},
                )
            )
        if abs(fd) > 1e-8 * (abs(f0) + 1e-12):
            sigs.append(f"{case['fact']}|{case['cal']}|{case['strategy']}|{case['ts']}|{case['init']}|{group}|{param}")
    obs["max_ad_fd_dev"] = max(worst.values()) if worst else 0.0
    sample = {"config": {k: case[k] for k in ("fact", "cal", "strategy", "ts", "init", "equal_noise", "nu")}, "rel_dev_per_pair": worst}
    return {"violations": viols, "obs": obs, "sigs": sigs, "sample": sample}

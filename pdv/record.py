"""Recording components: the event log every trace monitor works on.

Two ways to produce a log with the *real* ``RejectionLoop`` / ``solve_adaptive_save_at``:

* scripted: ``ScriptedSolver`` + ``ScriptedError`` (state = (t, num_steps, uid)) realise an arbitrary
  accept/reject history; costs ~2 ms per attempt.
* real: ``Rec(solver)``, ``Rec(error)``, ``RecControl(control)`` delegate to the real objects and
  fingerprint every state that crosses the boundary.

Both need ``jax.disable_jit()`` and the recording Python ``while_loop`` so that events carry numbers.
"""

import hashlib
from typing import Any, NamedTuple

import numpy as np


class Log:
    def __init__(self, max_events=400_000):
        self.events = []
        self.max_events = max_events
        self.budget_hit = False

    def add(self, **ev):
        if len(self.events) >= self.max_events:
            self.budget_hit = True
            raise BudgetExceeded("event budget")
        self.events.append(ev)


class BudgetExceeded(Exception):
    pass


def make_while(log: Log, max_iter=20_000):
    """A Python while_loop that records which loop runs (advance loop vs rejection loop)."""

    def py_while(cond, body, init=None):
        s = init
        name = type(s).__name__
        if name == "AdvanceState":
            log.add(ev="advance_begin")
        elif name == "_RejectionLoopState":
            log.add(ev="rejection_begin")
        k = 0
        while bool(cond(s)):
            s = body(s)
            k += 1
            if k > max_iter:
                log.budget_hit = True
                raise BudgetExceeded(f"{name} loop exceeded {max_iter} iterations")
        if name == "AdvanceState":
            log.add(ev="advance_end", iters=k)
        elif name == "_RejectionLoopState":
            log.add(ev="rejection_end", iters=k)
        return s

    return py_while


# ---- scripted components ---------------------------------------------------------------------


class St(NamedTuple):
    t: Any
    num_steps: Any
    uid: Any


class ScriptedSolver:
    """A 'solver' whose state is (t, num_steps, uid); mimics the real solver's bookkeeping."""

    is_suitable_for_save_at = True
    is_suitable_for_save_every_step = True

    def __init__(self, log: Log):
        self.log = log
        self.n = 0

    def _new(self):
        self.n += 1
        return self.n

    def init(self, t, u, damp):
        import jax.numpy as jnp

        self.log.add(ev="init", uid=0, t=float(t))
        return St(jnp.asarray(t, dtype=float), jnp.asarray(0), jnp.asarray(0))

    def step(self, state, dt, damp):
        import jax.numpy as jnp

        uid = self._new()
        new = St(state.t + dt, state.num_steps + 1, jnp.asarray(uid))
        self.log.add(ev="step", **{"from": int(state.uid)}, from_t=float(state.t), dt=float(dt), new=uid,
                     new_t=float(new.t), from_steps=int(state.num_steps))
        return new

    def interpolate_fwd(self, t, interp_from, interp_to):
        import jax.numpy as jnp
        from probdiffeq._probdiffeq import utilities

        sol_uid, from_uid = self._new(), self._new()
        sol = St(jnp.asarray(t, dtype=float), interp_to.num_steps, jnp.asarray(sol_uid))
        new_from = St(jnp.asarray(t, dtype=float), interp_from.num_steps, jnp.asarray(from_uid))
        self.log.add(ev="interp", kind="fwd", t=float(t), **{"from": int(interp_from.uid)}, from_t=float(interp_from.t),
                     to=int(interp_to.uid), to_t=float(interp_to.t), sol=sol_uid, sol_steps=int(sol.num_steps),
                     new_step_from=int(interp_to.uid), new_interp_from=from_uid)
        return sol, utilities.InterpResult(step_from=interp_to, interp_from=new_from)

    def interpolate_fwd_at_t1(self, t, interp_from, interp_to):
        from probdiffeq._probdiffeq import utilities

        self.log.add(ev="interp", kind="at", t=float(t), **{"from": int(interp_from.uid)}, from_t=float(interp_from.t),
                     to=int(interp_to.uid), to_t=float(interp_to.t), sol=int(interp_to.uid),
                     sol_steps=int(interp_to.num_steps), new_step_from=int(interp_to.uid), new_interp_from=int(interp_to.uid))
        return interp_to, utilities.InterpResult(step_from=interp_to, interp_from=interp_to)

    def userfriendly_output(self, solution0, solution, solution1):
        import jax
        import jax.numpy as jnp

        return jax.tree.map(lambda a, b: jnp.concatenate([a[None], b]), solution0, solution)


class ScriptedError:
    """error_power = (h_adm(t_from)/dt)^gamma: the attempt passes iff dt <= h_adm(t_from)."""

    def __init__(self, log: Log, hadm, gamma):
        self.log, self.hadm, self.gamma = log, hadm, gamma

    def init_error(self):
        return ()

    def estimate_error_norm(self, state, previous, proposed, dt, atol, rtol, damp):
        import jax.numpy as jnp

        if not float(dt) > 0.0:
            # a controller whose (admissible) gains shrink the step even after accepted attempts has crawled down to an
            # underflowed step: same situation as a loop-budget overrun (the partial trace is still judged)
            raise BudgetExceeded("step size underflowed to zero")
        ep = (self.hadm(float(previous.t)) / float(dt)) ** self.gamma
        self.log.add(ev="error", prev=int(previous.uid), prop=int(proposed.uid), dt=float(dt), ep=float(ep))
        return jnp.asarray(ep), state


class RecControl:
    def __init__(self, log: Log, control):
        self.log, self.c = log, control

    def init(self, dt):
        out = self.c.init(dt)
        self.log.add(ev="ctrl_init", dt=float(dt), mem=_floats(out))
        return out

    def apply(self, dt, state, error_power):
        out = self.c.apply(dt, state, error_power=error_power)
        self.log.add(ev="ctrl", dt_in=float(dt), ep=float(error_power), dt_out=float(out[0]), mem_in=_floats(state),
                     mem_out=_floats(out[1]))
        return out


def _floats(tree):
    import jax

    return [float(x) for x in jax.tree.leaves(tree)]


# ---- real components -------------------------------------------------------------------------


def fingerprint(state) -> str:
    """Content fingerprint of a ProbabilisticSolution-like state (t, num_steps, marginal)."""
    h = hashlib.sha1()
    h.update(np.asarray(state.t, dtype=float).tobytes())
    h.update(np.asarray(state.num_steps, dtype=np.int64).tobytes())
    h.update(np.asarray(state.u.mean_flat, dtype=float).tobytes())
    h.update(np.asarray(state.u.cholesky_flat, dtype=float).tobytes())
    return h.hexdigest()[:16]


class RecSolver:
    """Delegating proxy around a real solver; fingerprints every state crossing the boundary."""

    def __init__(self, log: Log, solver, keep_states=False):
        self.log, self._s = log, solver
        self.keep_states = keep_states
        self.states = {}

    def __getattr__(self, k):
        return getattr(self._s, k)

    def _fp(self, st):
        fp = fingerprint(st)
        if self.keep_states:
            self.states.setdefault(fp, st)
        return fp

    def init(self, t, u, damp):
        st = self._s.init(t=t, u=u, damp=damp)
        self.log.add(ev="init", uid=self._fp(st), t=float(st.t))
        return st

    def step(self, state, dt, damp):
        new = self._s.step(state=state, dt=dt, damp=damp)
        self.log.add(ev="step", **{"from": self._fp(state)}, from_t=float(state.t), dt=float(dt), new=self._fp(new),
                     new_t=float(new.t), from_steps=int(state.num_steps))
        return new

    def interpolate_fwd(self, t, interp_from, interp_to):
        sol, res = self._s.interpolate_fwd(t=t, interp_from=interp_from, interp_to=interp_to)
        self.log.add(ev="interp", kind="fwd", t=float(t), **{"from": self._fp(interp_from)}, from_t=float(interp_from.t),
                     to=self._fp(interp_to), to_t=float(interp_to.t), sol=self._fp(sol), sol_steps=int(sol.num_steps),
                     new_step_from=self._fp(res.step_from), new_interp_from=self._fp(res.interp_from),
                     new_step_from_t=float(res.step_from.t), new_interp_from_t=float(res.interp_from.t))
        return sol, res

    def interpolate_fwd_at_t1(self, t, interp_from, interp_to):
        sol, res = self._s.interpolate_fwd_at_t1(t=t, interp_from=interp_from, interp_to=interp_to)
        self.log.add(ev="interp", kind="at", t=float(t), **{"from": self._fp(interp_from)}, from_t=float(interp_from.t),
                     to=self._fp(interp_to), to_t=float(interp_to.t), sol=self._fp(sol), sol_steps=int(sol.num_steps),
                     new_step_from=self._fp(res.step_from), new_interp_from=self._fp(res.interp_from),
                     new_step_from_t=float(res.step_from.t), new_interp_from_t=float(res.interp_from.t))
        return sol, res

    def userfriendly_output(self, **kw):
        return self._s.userfriendly_output(**kw)


class RecError:
    def __init__(self, log: Log, error, keep_calls=False):
        self.log, self._e = log, error
        self.keep_calls = keep_calls
        self.calls = []

    def __getattr__(self, k):
        return getattr(self._e, k)

    def init_error(self):
        return self._e.init_error()

    def estimate_error_norm(self, state, previous, proposed, *, dt, atol, rtol, damp):
        ep, st = self._e.estimate_error_norm(state, previous, proposed, dt=dt, atol=atol, rtol=rtol, damp=damp)
        self.log.add(ev="error", prev=fingerprint(previous), prop=fingerprint(proposed), dt=float(dt), ep=float(ep))
        if self.keep_calls:
            self.calls.append(dict(previous=previous, proposed=proposed, dt=float(dt), atol=float(atol), rtol=float(rtol),
                                   damp=float(damp), ep=float(ep)))
        return ep, st

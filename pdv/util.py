"""Small helpers shared by all property modules."""

import fractions
import math
import random

import numpy as np


class Inconclusive(Exception):
    """Raised by a case that could not reach its deciding monitor."""


def rng_for(*parts) -> random.Random:
    return random.Random("|".join(str(p) for p in parts))


def jsonable(x):
    if isinstance(x, dict):
        return {str(k): jsonable(v) for k, v in x.items()}
    if isinstance(x, (list, tuple, set)):
        return [jsonable(v) for v in x]
    if isinstance(x, (str, bool, int)) or x is None:
        return x
    if isinstance(x, fractions.Fraction):
        return f"{x.numerator}/{x.denominator}" if x.denominator != 1 else int(x.numerator)
    if isinstance(x, float):
        return x if math.isfinite(x) else repr(x)
    if isinstance(x, np.generic):
        return jsonable(x.item())
    if hasattr(x, "shape") and hasattr(x, "dtype"):
        return jsonable(np.asarray(x).tolist())
    try:
        return jsonable(float(x))
    except Exception:  # noqa: BLE001
        return repr(x)


def frac(s) -> fractions.Fraction:
    """Parse '3/4', 2, '5' into a Fraction."""
    if isinstance(s, fractions.Fraction):
        return s
    if isinstance(s, int):
        return fractions.Fraction(s)
    if isinstance(s, str):
        return fractions.Fraction(s)
    return fractions.Fraction(s).limit_denominator(10**12)


def viol(suboracle, msg, *, tags=None, witness=None):
    return {
        "suboracle": suboracle,
        "msg": msg,
        "tags": dict(tags or {}),
        "witness": jsonable(witness or {}),
    }


def scaled_mean_err(m, m_ref, P_ref_diag, floor=0.0):
    """max_i |dm_i| / (|m_i| + sqrt(P_ii) + floor)."""
    m, m_ref = np.asarray(m, float), np.asarray(m_ref, float)
    den = np.abs(m_ref) + np.sqrt(np.maximum(np.asarray(P_ref_diag, float), 0.0)) + floor
    den = np.where(den == 0.0, 1.0, den)
    bad = ~np.isfinite(m)
    if bad.any():
        return float("inf")
    return float(np.max(np.abs(m - m_ref) / den)) if m.size else 0.0


def scaled_cov_err(P, P_ref, floor=0.0, std_floor_rel=0.0):
    """max_ij |dP_ij| / (sqrt(P_ii P_jj) + floor). ``std_floor_rel`` lifts standard deviations that are pure
    rounding noise (exactly observed coefficients) to that fraction of the largest one: needed when *both*
    sides are float64 results."""
    P, P_ref = np.asarray(P, float), np.asarray(P_ref, float)
    if not np.all(np.isfinite(P)):
        return float("inf")
    d = np.sqrt(np.maximum(np.diag(P_ref), 0.0))
    if std_floor_rel and d.size:
        d = np.maximum(d, std_floor_rel * float(np.max(d)))
    den = np.outer(d, d) + floor
    den = np.where(den == 0.0, 1.0, den)
    return float(np.max(np.abs(P - P_ref) / den)) if P.size else 0.0


def rel_err(a, b, floor=0.0):
    a, b = np.asarray(a, float), np.asarray(b, float)
    if not np.all(np.isfinite(a)):
        return float("inf")
    den = np.maximum(np.abs(b), floor)
    den = np.where(den == 0.0, 1.0, den)
    return float(np.max(np.abs(a - b) / den)) if a.size else 0.0


# Measured-conditioning tolerances: when a tight tolerance fails, the reference side is re-evaluated with its inputs moved by
# one unit roundoff; a deviation of up to COND_FACTOR times the observed change is attributed to rounding. One probe samples
# one rounding pattern; float64 pipelines of a few hundred operations exceed a single sample by up to ~30x (measured), seeded
# defects exceed it by 1e3..1e12.
COND_FACTOR = 50.0

"""Build solver configurations of the repository from JSON-able descriptors (public API only)."""

import math
from fractions import Fraction

import numpy as np

from pdv import poly

FACTS = ["dense", "isotropic", "blockdiag"]
STRATEGIES = ["filter", "fixedpoint", "fixedinterval"]
CALS = ["solver", "mle", "dynamic"]


def ssm_of(fact):
    from probdiffeq import probdiffeq

    return {
        "dense": probdiffeq.state_space_model_dense,
        "isotropic": probdiffeq.state_space_model_isotropic,
        "blockdiag": probdiffeq.state_space_model_blockdiag,
    }[fact]()


def strategy_of(name):
    from probdiffeq import probdiffeq

    return {
        "filter": probdiffeq.strategy_filter,
        "fixedpoint": probdiffeq.strategy_smoother_fixedpoint,
        "fixedinterval": probdiffeq.strategy_smoother_fixedinterval,
    }[name]()


# ---- problems -------------------------------------------------------------------------------


def problem_of(desc):
    """Return dict(f=jax fn f(*blocks, t), order, d, u0=list of order arrays, t0, exact=callable|None, field=PolyField|None)."""
    import jax.numpy as jnp

    name = desc["name"]
    if name == "poly":
        field = poly.PolyField.from_json(desc["field"])
        inits = [[Fraction(x) for x in blk] for blk in desc["inits"]]
        return dict(f=field.jax_fn(), order=field.nblocks, d=field.d, t0=float(Fraction(desc["t0"])),
                    u0=[jnp.asarray([float(x) for x in blk]) for blk in inits], exact=None, field=field,
                    inits_exact=inits, t0_exact=Fraction(desc["t0"]))
    if name == "logistic3":
        a = np.asarray(desc.get("a", [1.0, 2.0, 0.5]))
        u0 = np.asarray(desc.get("u0", [0.1, 0.3, 0.6]))
        aj = jnp.asarray(a)

        def f(u, *, t):
            return aj * u * (1.0 - u)

        def exact(t):
            e = np.exp(a * t)
            return u0 * e / (1.0 - u0 + u0 * e)

        return dict(f=f, order=1, d=len(a), t0=0.0, u0=[jnp.asarray(u0)], exact=exact, field=None)
    if name == "decay2":
        # u' = -lam u: the solution spans many orders of magnitude, so atol and rtol play different roles
        lam = np.asarray(desc.get("lam", [1.0, 1.5]))
        u0 = np.asarray(desc.get("u0", [1.0, 2.0]))
        lj = jnp.asarray(lam)

        def f(u, *, t):
            return -lj * u

        def exact(t):
            return u0 * np.exp(-lam * t)

        return dict(f=f, order=1, d=len(lam), t0=0.0, u0=[jnp.asarray(u0)], exact=exact, field=None)
    if name == "linear_forced":
        # u' = -u + sin t ; w' = -2 w + u
        def f(y, *, t):
            return jnp.stack([-y[0] + jnp.sin(t), -2.0 * y[1] + y[0]])

        y0 = np.asarray(desc.get("u0", [1.0, 0.5]))

        def exact(t):
            # u = (u0 + 1/2) e^{-t} + (sin t - cos t)/2
            c1 = y0[0] + 0.5
            u = c1 * np.exp(-t) + 0.5 * (np.sin(t) - np.cos(t))
            # w' + 2w = u  -> w = e^{-2t}(w0 + int_0^t e^{2s} u(s) ds)
            # int e^{2s} c1 e^{-s} = c1 (e^{t}-1); int e^{2s}(sin s - cos s)/2 ds = [e^{2s}(sin s - 3 cos s)/10]_0^t
            integ = c1 * (np.exp(t) - 1.0) + (np.exp(2 * t) * (np.sin(t) - 3 * np.cos(t)) + 3.0) / 10.0
            w = np.exp(-2 * t) * (y0[1] + integ)
            return np.stack([u, w], axis=-1) if np.ndim(t) else np.asarray([u, w])

        return dict(f=f, order=1, d=2, t0=0.0, u0=[jnp.asarray(y0)], exact=exact, field=None)
    if name == "harmonic2":
        # u'' = -w^2 u as a second-order problem
        w = float(desc.get("w", 1.5))
        u0 = np.asarray(desc.get("u0", [1.0, -0.5]))
        v0 = np.asarray(desc.get("v0", [0.3, 0.8]))

        def f(u, du, *, t):
            return -(w**2) * u

        def exact(t):
            return u0 * np.cos(w * t) + v0 / w * np.sin(w * t)

        return dict(f=f, order=2, d=len(u0), t0=0.0, u0=[jnp.asarray(u0), jnp.asarray(v0)], exact=exact, field=None)
    if name == "riccati":
        # u' = 1 + u^2, u(0)=u0 -> tan(t + atan u0); componentwise with different starts
        u0 = np.asarray(desc.get("u0", [0.0, 0.2]))

        def f(u, *, t):
            return 1.0 + u**2

        def exact(t):
            return np.tan(t + np.arctan(u0))

        return dict(f=f, order=1, d=len(u0), t0=0.0, u0=[jnp.asarray(u0)], exact=exact, field=None)
    if name == "bernoulli":
        # u' = -u + t u^2 ; 1/u = v, v' = v - t -> v = t + 1 + (1/u0 - 1) e^{t}
        u0 = np.asarray(desc.get("u0", [0.5, 0.25]))

        def f(u, *, t):
            return -u + t * u**2

        def exact(t):
            return 1.0 / (t + 1.0 + (1.0 / u0 - 1.0) * np.exp(t))

        return dict(f=f, order=1, d=len(u0), t0=0.0, u0=[jnp.asarray(u0)], exact=exact, field=None)
    if name == "lotka":
        u0 = np.asarray(desc.get("u0", [20.0, 20.0]))

        def f(u, *, t):
            return jnp.stack([0.5 * u[0] - 0.05 * u[0] * u[1], -0.5 * u[1] + 0.05 * u[0] * u[1]])

        return dict(f=f, order=1, d=2, t0=0.0, u0=[jnp.asarray(u0)], exact=None, field=None,
                    np_rhs=lambda t, u: np.asarray([0.5 * u[0] - 0.05 * u[0] * u[1], -0.5 * u[1] + 0.05 * u[0] * u[1]]))
    if name == "vdp":
        mu = float(desc.get("mu", 1.0))
        u0 = np.asarray(desc.get("u0", [2.0, 0.0]))

        def f(u, *, t):
            return jnp.stack([u[1], mu * (1 - u[0] ** 2) * u[1] - u[0]])

        return dict(f=f, order=1, d=2, t0=0.0, u0=[jnp.asarray(u0)], exact=None, field=None,
                    np_rhs=lambda t, u: np.asarray([u[1], mu * (1 - u[0] ** 2) * u[1] - u[0]]))
    raise ValueError(name)


def reference_solution(prob, ts):
    """Independent reference at times ts: closed form, else SciPy DOP853 at 1e-13."""
    ts = np.asarray(ts, float)
    if prob.get("exact") is not None:
        return np.stack([np.asarray(prob["exact"](float(t)), float) for t in ts])
    from scipy.integrate import solve_ivp

    y0 = np.asarray(prob["u0"][0], float)
    sol = solve_ivp(prob["np_rhs"], (prob["t0"], float(ts[-1]) + 1e-12), y0, method="DOP853", rtol=1e-13, atol=1e-13,
                    dense_output=True)
    return np.stack([sol.sol(float(t)) if t > prob["t0"] else y0 for t in ts])


def ode_of(prob, jacobian=None):
    from probdiffeq import probdiffeq

    f = prob["f"]
    if jacobian is None:
        jacobian = probdiffeq.jacobian_materialize()
    if prob["order"] == 1:
        return probdiffeq.ode(lambda u, *, t: f(u, t=t), jacobian=jacobian)
    if prob["order"] == 2:
        return probdiffeq.ode_order_two(lambda u, du, *, t: f(u, du, t=t), jacobian=jacobian)
    raise ValueError


def tcoeffs_of(prob, num_coeffs):
    """Taylor coefficients u, ..., u^(num_coeffs-1) at t0: exact rationals for polynomial problems,
    otherwise the repo's own (C10-checked) padded-scan routine."""
    import jax.numpy as jnp
    from probdiffeq import probdiffeq

    order = prob["order"]
    if prob.get("field") is not None:
        ex = poly.ode_taylor_coefficients(prob["field"], prob["inits_exact"], prob["t0_exact"], max(num_coeffs - order, 0))
        return [jnp.asarray([float(x) for x in row]) for row in ex[:num_coeffs]]
    vf = ode_of(prob)
    tc, _ = probdiffeq.jetexpand_ode_padded_scan(num=max(num_coeffs - order, 0))(vf, list(prob["u0"]), t=prob["t0"])
    return list(tc[:num_coeffs])


def build(*, fact, strategy, cal, ts, nu, problem, damp=0.0, base_scale=None, init="exact", inexact_eps=1e-3,
          diffuse=0, constraint_init=False, relinearize=False, correct_underconfidence=True, error="residual",
          error_kwargs=None, prior="iwp", stop_gradient=True, jacobian=None, prob=None, tc_ulp_seed=None):
    """Assemble (prior, constraint, solver, error, ...) for one configuration. ``nu`` = number of derivatives."""
    import jax.numpy as jnp
    from probdiffeq import probdiffeq

    prob = prob or problem_of(problem)
    ssm = ssm_of(fact)
    vf = ode_of(prob, jacobian=jacobian)
    n = nu + 1
    tc = tcoeffs_of(prob, n - diffuse)
    if tc_ulp_seed is not None:
        # conditioning probe: every Taylor coefficient moved by one unit roundoff *independently* (moving only u0 would slide
        # along the solution manifold and leave the residuals, whose rounding noise is what gets amplified, untouched)
        rr = np.random.default_rng(tc_ulp_seed)
        tc = [x * jnp.asarray(1.0 + rr.choice([-1.0, 1.0], size=np.shape(x)) * 2.0**-52) for x in tc]
    d = prob["d"]
    bs = None
    if base_scale is not None:
        if fact == "isotropic":
            bs = jnp.asarray(float(np.asarray(base_scale).reshape(-1)[0]))
        else:
            b = np.asarray(base_scale, float).reshape(-1)
            bs = jnp.asarray(b if b.size == d else np.full((d,), b[0]))
    kw = dict(output_scale=bs)
    if diffuse:
        kw.update(diffuse_derivatives=diffuse, diffuse_eps=1.0)
    if init == "exact":
        kw.update(is_exact=True)
    else:
        kw.update(is_exact=False, inexact_eps=inexact_eps)
    if prior == "iwp":
        pr = ssm.prior_wiener_integrated(tc, **kw)
    elif prior == "ou":
        L = jnp.asarray(-0.5 * np.eye(d) + 0.1 * np.ones((d, d)))
        pr = ssm.prior_ornstein_uhlenbeck_integrated(lambda u: L @ u, tc, **kw)
    elif prior == "matern":
        pr = ssm.prior_matern(1.3, tc, **kw)
    else:
        raise ValueError(prior)
    if ts == "ts0":
        vf_c = vf if prob["order"] + 0 == 1 or True else vf
        constraint = ssm.constraint_ode_ts0(vf_c)
    elif ts == "ts1":
        constraint = ssm.constraint_ode_ts1(vf)
    elif ts == "residual":
        constraint = ssm.constraint_residual(probdiffeq.residual_from_ode(vf))
    else:
        raise ValueError(ts)
    c_init = None
    if constraint_init:
        c_init = constraint
    strat = strategy_of(strategy)
    if cal == "solver":
        solver = probdiffeq.solver(strategy=strat, constraint=constraint, constraint_init=c_init)
    elif cal == "mle":
        solver = probdiffeq.solver_mle(strategy=strat, constraint=constraint, constraint_init=c_init,
                                       correct_asymptotic_underconfidence=correct_underconfidence)
    elif cal == "dynamic":
        solver = probdiffeq.solver_dynamic(strategy=strat, constraint=constraint, constraint_init=c_init,
                                           re_linearize_after_calibration=relinearize,
                                           stop_gradient_through_calibration=stop_gradient)
    else:
        raise ValueError(cal)
    ek = dict(error_kwargs or {})
    if error == "residual":
        err = probdiffeq.error_residual_std(constraint=constraint, **ek)
    else:
        err = probdiffeq.error_state_std(constraint=constraint, **ek)
    return dict(ssm=ssm, prior=pr, constraint=constraint, strategy=strat, solver=solver, error=err, vf=vf, prob=prob,
                tcoeffs=tc, d=d, n=n)


def drift_of(prior, n, d):
    """SDE drift matrix (dense layout) of the exponential priors built by ``build`` (from their definitions)."""
    A = np.kron(np.diag(np.ones(n - 1), k=1), np.eye(d)) if n > 1 else np.zeros((d, d))
    if prior == "ou":
        A[-d:, -d:] = -0.5 * np.eye(d) + 0.1 * np.ones((d, d))
    elif prior == "matern":
        z = math.sqrt(2 * (n - 0.5)) / 1.3
        for i in range(n):
            A[-d:, i * d : (i + 1) * d] = -math.comb(n, i) * z ** (n - i) * np.eye(d)
    else:
        raise ValueError(prior)
    return A


def loguniform(rng, lo, hi):
    return math.exp(rng.uniform(math.log(lo), math.log(hi)))


def bounded_while(budget=4000):
    """A jit-compatible while_loop with a logical iteration budget (a diverging adaptive run must not hang a check).
    When the budget is exhausted while the loop condition still holds, every floating-point leaf of the result is
    poisoned with NaN, so callers detect it by the final time not being reached (``adaptive_reached_end``)."""
    import jax
    import jax.numpy as jnp

    def loop(cond, body, init):
        out, n = jax.lax.while_loop(lambda s: jnp.logical_and(cond(s[0]), s[1] < budget), lambda s: (body(s[0]), s[1] + 1), (init, 0))
        hit = jnp.logical_and(n >= budget, cond(out))

        def poison(x):
            x = jnp.asarray(x)
            return jnp.where(hit, jnp.nan, x) if jnp.issubdtype(x.dtype, jnp.floating) else x

        return jax.tree.map(poison, out)

    return loop


def save_every_step(solver, error, *, clip_dt, inner_budget=300, max_steps=5000, while_loop=None, jit=True, control=None):
    """The repository's save-every-step routine (probdiffeq.util.test_util) rebuilt from the same public pieces
    (RejectionLoop, control_integral) with *bounded* loops: returns solve(prior, t0, t1, atol, rtol, dt0) -> solution
    or None when a budget is exhausted (inconclusive, never a verdict)."""
    import jax
    import jax.numpy as jnp
    from probdiffeq import ivpsolve
    from probdiffeq.backend import tree

    # while_loop / jit=False: eager runs behind recording proxies (the supplied loop raises on its own budget)
    loop = ivpsolve.RejectionLoop(solver=solver, clip_dt=clip_dt, control=control if control is not None else ivpsolve.control_integral(), error=error,
                                  while_loop=while_loop if while_loop is not None else bounded_while(inner_budget))
    _jit = jax.jit if jit else (lambda f: f)
    apply = _jit(loop.loop)

    def solve(prior, t0, t1, *, atol, rtol, dt0, eps=1e-8, damp=0.0):
        t0_, t1_ = jnp.asarray(t0), jnp.asarray(t1)
        sol0 = _jit(solver.init)(t=t0_, u=prior, damp=damp)
        state = _jit(loop.init)(sol0, dt=dt0)
        sols = []
        while float(state.step_from.t) < float(t1_):
            solution, state = apply(state, t1=t1_, eps=eps, atol=atol, rtol=rtol, damp=damp)
            sols.append(jax.tree.map(jnp.asarray, solution))  # eager runs carry Python scalars in some leaves
            if len(sols) > max_steps or not np.isfinite(float(state.step_from.t)):
                return None
        stacked = tree.tree_array_stack(sols)
        return _jit(solver.userfriendly_output)(solution0=sol0, solution=stacked, solution1=state.step_from)

    return solve


def adaptive_reached_end(sol, t_end, eps=1e-6):
    t = np.asarray(sol.t, float)
    return bool(np.all(np.isfinite(t)) and abs(float(t[-1] if t.ndim else t) - float(t_end)) <= eps)

"""Worker: run a list of cases of one property in this process, one JSON result per line."""

import importlib
import json
import os
import sys
import time
import traceback
import warnings


def _classify_exception(exc) -> str:
    """'repo' if the innermost non-library frame is in the tree under test, else 'harness'."""
    from pdv import env

    repo = os.path.realpath(env.repo_path())
    verif = os.path.realpath(env.VERIF)
    frames = traceback.extract_tb(exc.__traceback__)
    for fr in reversed(frames):
        fn = os.path.realpath(fr.filename)
        if fn.startswith(os.path.join(repo, "probdiffeq")):
            return "repo"
        if fn.startswith(os.path.join(verif, "pdv")):
            return "harness"
    return "harness"


def main():
    prop, casefile, outfile = sys.argv[1:4]
    from pdv import env

    sys.path[:0] = [env.DEPS]
    import jax

    jax.config.update("jax_enable_x64", os.environ.get("JAX_ENABLE_X64", "1") == "1")
    jax.config.update("jax_platforms", "cpu")
    env.assert_repo_import()
    warnings.filterwarnings("ignore", category=DeprecationWarning)
    mod = importlib.import_module(f"pdv.props.{prop.lower()}")
    from pdv import util

    with open(casefile) as fh:
        cases = [json.loads(line) for line in fh if line.strip()]
    with open(outfile, "w") as out:
        for case in cases:
            t0 = time.time()
            res = {"id": case["id"]}
            try:
                r = mod.run_case(case)
                res.update(r)
            except util.Inconclusive as exc:
                res["inconclusive"] = str(exc)
            except Exception as exc:  # noqa: BLE001
                tb = traceback.format_exc()
                where = _classify_exception(exc)
                if where == "repo" and not getattr(mod, "REPO_EXCEPTIONS_ARE_HARNESS", False):
                    res["violations"] = [
                        {
                            "suboracle": "exception_on_valid_input",
                            "msg": f"{type(exc).__name__}: {exc}"[:500],
                            "tags": {"exception": type(exc).__name__},
                            "witness": {"traceback": tb[-3000:]},
                        }
                    ]
                else:
                    res["harness_error"] = tb[-3000:]
            res["wall_s"] = round(time.time() - t0, 3)
            out.write(json.dumps(util.jsonable(res)) + "\n")
            out.flush()


if __name__ == "__main__":
    main()

#!/usr/bin/env python3
"""Regenerate MANIFEST.json from the table below (python3 tools/manifest.py)."""
import json
import os

HERE = os.path.dirname(os.path.dirname(os.path.abspath(__file__)))
BASE = "cd /repo && /venv/bin/python -m pytest -ra -q -p no:cacheprovider --timeout=900 --continue-on-collection-errors"

# id -> (category, technique, text, note, design_ref)
CHECKS = {}


def reg(pid, technique, text, note, category="exploration"):
    CHECKS[pid] = dict(category=category, technique=technique, text=text, note=note)


reg(
    "C10",
    "reference-model monitor: exact power-series solution over Fractions vs all five Taylor routines on random polynomial IVPs",
    "Every routine is executed on random polynomial vector fields (orders 1-2, d<=3, degree<=3, time-dependent or not, "
    "flat and nested-pytree states, num up to 10) and on implicit mass-matrix / semi-explicit DAE problems for the residual "
    "routine; each returned derivative is compared with the exact rational derivative (1e-9 scaled). Held on the cases run, "
    "not a proof; evidence lists distinct (routine, order, d, time-dep, nonlinear, pytree, num) tuples.",
    "Trusted: the 60-line Fraction power-series recurrence in pdv/poly.py; float64 evaluation of small-rational polynomials.",
)

reg(
    "C17",
    "interposed Rademacher draws (full 2^(n*d) sign enumeration) + analytic Jacobian reference; key-advance trace over successive calls",
    "The three handlers run on random non-square smooth maps; backend.random.rademacher is interposed so the stochastic handlers "
    "receive every sign tensor exactly once: their estimate must then equal the exact trace/diagonal block to 1e-11 (exact "
    "unbiasedness, no Monte-Carlo tolerance). Logged sub-keys must be pairwise distinct and the carried key must change. A fixed "
    "table of malformed inputs (wrong rank, containers, trailing dimensions that differ incl. broadcast-compatible 1-vs-d pairs) must raise. Exploration over shapes/points; exhaustive over probes for each case.",
    "Trusted: analytic Jacobian of the generated linear+sin+bilinear map; jax.random.split.",
)
reg(
    "C09",
    "reference-model monitor: exact rational IWP closed form and 90-digit Van Loan exponential vs prior.transition / merge / exp_gram_cholesky (float64 and float32 workers)",
    "Transitions of all Wiener priors (3 factorisations, nu<=10, d<=5, h in [1e-6,1e2], diagonal base scales) and dense "
    "OU/Matern/general exponential priors (||drift*h|| up to 50) are un-preconditioned by our own code and compared entrywise "
    "with the exact discretisation; composition and scale-linearity are checked on the same objects; the raw Pade/Legendre "
    "routine is checked for all five orders in float64 and float32 worker processes.",
    "Trusted: closed-form IWP formulas over Fraction; hand-written scaling-and-squaring Taylor exponential at 90 digits (mpmath).",
)
reg(
    "C08",
    "reference-model monitor: direct calls on LatentCond/Normal objects with hostile factors and scalings vs 50-digit dense Gaussian formulas; revert judged through the joint law of (x,y)",
    "Each generated case (factorisation x shapes x well/ill/rank-deficient/zero/non-triangular factors x scalings in "
    "[1e-12,1e12]) exercises marginalise, apply_flat, merge, preconditioner_apply, revert (triangular and least-squares "
    "solves), the three bayes-rule composites, logpdf, whitened rms, std, rescale, dense conversion, to_derivative, "
    "identity_conditional and vmapped variants; deviations are scaled entrywise by the natural forward-error bounds.",
    "Trusted: mpmath arithmetic and our 100-line embedding of raw fields; revert with lstsq is not judged in the grey zone "
    "1e-17 < sigma_min/sigma_max < 1e-11 where rcond truncation is unpredictable (counted in evidence).",
)

reg(
    "C06",
    "offline trace checker (rules R1-R7 + livelock) over event logs of the real RejectionLoop driven by scripted solver/error components and by real solvers behind recording proxies",
    "The real solve_adaptive_save_at / RejectionLoop / controllers run under jax.disable_jit with a recording Python while_loop. "
    "Scripted components realise arbitrary accept/reject histories (random and hostile admissible-step profiles, I and PI "
    "controllers with random admissible parameters, clip on/off, three eps values, checkpoints placed by a two-pass "
    "construction at / within eps of / after / inside step ends); real solver configurations are sampled. Every event "
    "(attempt, error estimate, controller call, interpolation, loop boundary, report) is checked against the trace "
    "specification. Held on the histories run (about 1200 quick / 30000 thorough), counted per branch in the evidence.",
    "Trusted: disable_jit preserves program order; the scripted solver follows the bookkeeping contract of real solvers. "
    "Budget overruns of slow-but-progressing runs are inconclusive histories (counted), never violations.",
)
reg(
    "C07",
    "intercepted estimate_error_norm calls inside real adaptive runs recomputed from the previous mean with the documented formula (mpmath); counting proxy for cached vs re-linearised; dyadic base-scale rerun",
    "Recording proxies capture every (previous, proposed, dt, atol, rtol) the loop hands to the estimator; the returned "
    "acceptance quantity is recomputed independently (exact IWP transition, exact polynomial Jacobians reduced per "
    "factorisation, local scale, dt^n/n!, selected norm, reference max(|u_prev|,|u_new|), power -1/(nu+1)) and must agree "
    "to 1e-8 (+1e-13*condition of the residual). Direct calls with dt in [1e-5,1] and tolerances in [1e-10,1e-1] extend "
    "the reach; a rerun with the base scale times 2^k must reproduce every value and the attempt count.",
    "Trusted: pdv/refmodel/{sde,lin}.py. Calls whose residual is rounding noise (condition > 1e5) are not judged (counted).",
)

reg(
    "C02",
    "reference-model monitor: 50-digit textbook EKF (covariance form) vs solve_fixed_grid filter runs, per-transition conformance restarted from the repo's own square-root posterior plus independent end-to-end recursion",
    "Random polynomial IVPs x random grids x nu<=8 x 3 factorisations x {uncalibrated, MLE +-correction, dynamic +-relinearise} "
    "x {TS0, TS1, residual} x damp x {IWP, OU, Matern} x {exact, inexact, diffuse + initial-constraint update} x base scales. "
    "All Taylor components of means, full covariances and output scales are compared in scaled form (1e-8 per transition, "
    "1e-6 end to end) with rounding-aware slack derived inside the reference (noise of the residual, propagated).",
    "Trusted: pdv/refmodel/{kalman,lin,sde,mpl}.py (mpmath). Problems whose solution explodes on the grid (|mean|>1e4) and "
    "calibrated covariances whose scale estimate is rounding noise are not judged (counted in evidence).",
)

reg(
    "C03",
    "reference-model monitor: 50-digit RTS smoother over recorded step ends united with output times vs the three smoother routes (recording proxies give the complete accepted-step sequence); joint/cross-covariance identities from the returned backward kernels",
    "Fixed-interval on fixed grids, fixed-interval on adaptive save-every-step runs (last step overshooting or landing on the "
    "final time) and fixed-point with checkpoints are run on random polynomial IVPs x factorisation x calibration x TS0/TS1; "
    "every returned marginal, the terminal-equals-filtering clause, smoothed<=filtered variances, the marginals and "
    "cross-covariances implied by the returned backward Markov factorisation, and fixed-interval vs fixed-point on the same "
    "step grid are compared with the reference (1e-7 scaled, rounding-aware).",
    "Trusted: pdv/refmodel/{kalman,rtsref}.py; the recorded filtering marginals are inputs (their correctness is C02).",
)

reg(
    "C18",
    "reference-model monitor: independent plain-Python Hairer-Norsett-Wanner II.4 vs dt0_adaptive; positivity/finiteness assertions on hostile magnitudes; follow-up adaptive solve under a logical step budget",
    "Both helpers are called on zero, 1e-300, 1e300, mixed-magnitude and ordinary initial values x five vector fields "
    "(incl. equilibria f(u0)=0 and constant fields) x tolerances in [1e-12,1] x rates 1..12 x flat/pytree states. Every proposal "
    "must be finite and >0; dt0_adaptive must equal the independent HNW II.4 value (RMS-norm or 2-norm variant, 1e-9); an "
    "adaptive solve started from the proposal must reach the final time with finite values within 3000 loop iterations.",
    "Trusted: the 20-line HNW implementation in pdv/props/c18.py. Vector fields that are themselves non-finite at u0 are excluded.",
)

reg(
    "C19",
    "recording while_loop around the real Gauss-Newton iteration: every iterate logged; termination class, statistics truthfulness, range-space optimality and affine exactness decided from the log",
    "lstsq_constrained_gauss_newton (directly, through taylor_point_maximum_a_posteriori, and as linearisation point of one "
    "dense filter update) runs on affine and mildly nonlinear polynomial constraints with regular, singular and zero covariance "
    "factors, tolerances 1e-12..1e-4 and budgets 1..50. The recorded iterates decide: reported iters = loop bodies executed, "
    "final_constraint = g(x), final_increment = last difference; feasible / budget-exhausted / early-stop classification; "
    "displacement in range(L L^T J^T) up to the last increment; affine => conditional mean after one iteration.",
    "Trusted: numpy pinv/lstsq for the affine reference. Early stops on instances that are infeasible in range are the known finding D10; early stops at the accuracy floor of the SVD-based inner solve on badly scaled factors (cond(J L) > 1e3) are the known finding D17.",
)

reg(
    "C11",
    "reference-model monitor: exact power-series composition (total derivatives along rational curves) vs jet_lift outputs; exact reduced Jacobians vs linearize(); argument log per stacked residual part; rejection table for lift_by",
    "ode.jet_lift / residual.jet_lift / jet_lift_max on random polynomial right-hand sides (order 1..3) and residuals "
    "(differential order 0..2) in (u,u',u'',t), lift orders 0..5, random rational curves, flat and pytree states; inadmissible "
    "lift_by must raise; residual_from_stack parts are wrapped and their arguments logged; linearize() of TS0 / TS1 / residual / "
    "user-written residual / jet-lifted TS0 constraints in three factorisations must reproduce the constraint value and the "
    "exact (full, per-dimension, trace-averaged) Jacobian; TS1 == residual(u^(k)-f).",
    "Trusted: pdv/poly.py series arithmetic; pdv/refmodel/lin.py.",
)
reg(
    "C20",
    "fault enumeration: committed table of entry points x single-field corruptions x factorisations, each executed through construction + first use; outcome raised vs produced-numbers; warnings captured and matched against the remedy",
    "All 203 table rows are executed on every run (exhaustive over the table): prior constructors (coefficient container, "
    "exactness flags, output scale), diffuse priors (std container), constraint constructors (plain functions / wrong "
    "description types), both losses (noise container, posterior type), residual error estimate with jet-lifted constraints, "
    "lift orders, exponential-prior order, ensemble size, Taylor routines, Jacobian handler inputs, and ten strategy/routine "
    "pairings (warn naming the remedy / no warning). Valid rows must produce numbers.",
    "The table bounds the coverage; 'first use' = solver.init + one step or one loss/estimate evaluation.",
    category="fault_enumeration",
)

reg(
    "C12",
    "reference-model monitor: dense joint of the observed rows assembled in 50-digit arithmetic from the raw fields of the returned backward Markov factorisation, Gaussian log-density in mpmath, vs both losses",
    "Posteriors from fixed-grid/fixed-interval and checkpoint/fixed-point solves (3 factorisations, 3 calibrations, exact and "
    "inexact initial states) are fed to loss_lml_timeseries (sum and average, every observed coefficient index) and "
    "loss_lml_terminal_values with random data (near and far from the mean) and noise std log-uniform in [1e-6,1e3] per time and "
    "per dimension; the value must equal the log-density of the data under the joint smoothing posterior plus noise (1e-7 rel).",
    "Trusted: pdv/extract.py embedding and pdv/refmodel/mpl.py. The oracle is relative to the returned posterior (independent of C03).",
)

reg(
    "C13",
    "interposed standard-normal draws (tape of zeros / scaled unit vectors / random vectors, every call logged) under disable_jit; response matrix of sample() vs the 50-digit joint smoothing covariance",
    "posterior.sample and MarkovSequence.from_grid(prior).sample run with backend.random.normal replaced by a tape: zero draws "
    "must reproduce the smoothing means at every output time and coefficient; the responses to (scaled) unit draws form the "
    "linear map whose Gram matrix must equal the joint covariance assembled from the raw backward kernels (closed-form IWP joint "
    "for prior sequences); random tapes check affinity; the call log proves one draw per time point; shapes (), (n,), (n,m) are "
    "prepended. Fixed-interval posteriors (non-unit kernel scalings, non-zero offsets) and fixed-point posteriors, 3 factorisations.",
    "Trusted: pdv/extract.markov_joint_mp; disable_jit turns the scan in sample() into a Python loop.",
)

reg(
    "C14",
    "metamorphic monitor: the same problem through dense / isotropic / block-diagonal models (and d independent scalar dense solves), all embedded in one dense layout and compared; adaptive dense/isotropic step counts compared",
    "TS0 on arbitrary nonlinear polynomial problems (dense == isotropic in all calibration modes incl. the scale; dense vs "
    "blockdiag means in uncalibrated/MLE, covariances in uncalibrated, mean_d sigma_d^2 = sigma_dense^2), TS1 on decoupled "
    "problems (blockdiag == independent scalar dense solves, all modes), TS1 on scalar-Jacobian problems (isotropic == dense), "
    "adaptive dense/isotropic pairs (identical step counts and values); three strategies, nu 1..6, random fixed grids.",
    "Both sides are float64 results of the repository: tolerance 1e-6 (1e-4 for nu>=5), measured deviations <= 8e-8.",
)

reg(
    "C05",
    "metamorphic + reference monitor over recorded runs: two-pass construction of checkpoint sets A subset B with forced corner layouts; B|A == A (values, step counts, scales, accepted-step traces); each checkpoint vs reference Gaussian interpolation of the recorded step sequence; off-grid marginals; terminal routine",
    "Pass 1 records the natural step ends; pass 2 places checkpoints exactly at, within eps/2 of and 2 eps after step ends, "
    "three inside one step and pairs closer than eps, plus random ones (clip off). Both runs execute eagerly behind recording "
    "proxies. Oracles: subset equality incl. identical accepted-step traces; filter checkpoints = exact-transition prediction "
    "from the preceding accepted state, smoother checkpoints = 50-digit RTS through step ends united with checkpoints; "
    "offgrid_marginals of a save-every-step run; solve_adaptive_terminal_values (clip on/off).",
    "Trusted: pdv/refmodel/{kalman,rtsref}.py. Fixed-point cases with an interpolation gap < 1e-5 (or, from 4 derivatives on, < 1e-3..1e-2 of the step) are the known finding D14 "
    "(layouts that create such gaps are only generated in about half of the cases so that the others are judged strictly).",
)

reg(
    "C04",
    "reference-model monitor over recorded accepted steps (quasi-MLE / local dynamic estimate recomputed in 50 digits, rounding-aware) plus metamorphic reruns with the base scale times c (dyadic: exact arithmetic, incl. accept/reject trace equality)",
    "Value: adaptive runs behind recording proxies (checkpoints incl. step ends); the MLE scale must equal the RMS of the "
    "whitened residuals of all recorded steps (with the initial-constraint datum and the 1/sqrt(N) correction as configured), "
    "the dynamic scale the per-step local estimate (and the covering step's value at checkpoints), the uncalibrated scale "
    "exactly one; returned covariances = unit covariances x scale^2. Equivariance: fixed-grid and adaptive reruns with base "
    "scale x 2^k (1e-12 on means, calibrated covariances, scale*c and the full attempt trace) and x non-dyadic c (1e-7).",
    "Trusted: pdv/refmodel/kalman.py. Precondition (stated in the property's scope): exact initial state, no damping.",
)

reg(
    "C15",
    "metamorphic monitor: pairs of executions that must agree (pytree vs flattened problem, permuted vs original, jit vs disable_jit, vmap vs Python loop) compared on values, structures, shapes, step counts and reported times",
    "Random nested dict/tuple/namedtuple states (leaves of rank 0..3, custom Taylor container) vs the flattened problem: same "
    "numbers, means and stds in the caller's structure with a leading time axis of the requested length; all non-identity "
    "permutations of up to 4 components permute the solution; jit vs eager agree incl. step counts; vmap over batches whose "
    "members need up to 30x different step counts agrees with a loop, every member finite and reported at the requested times. "
    "Three factorisations, fixed and adaptive routines, filter and smoothers, three calibration modes.",
    "Two repository executions are compared; tolerances 1e-10..1e-6 (dynamic calibration under jit vs eager differs by rounding sensitivity).",
)

reg(
    "C16",
    "differential monitor: jax.jvp vs jax.grad vs Richardson-extrapolated central differences of the computed output, one output group and one parameter at a time",
    "A parametrised nonlinear problem on a fixed grid is solved in every factorisation x calibration (dynamic with "
    "stop_gradient_through_calibration=False) x {filter, fixed-interval} x TS0/TS1 x exact/inexact initial state x equal/unequal "
    "noise; for each defined (group, parameter) pair - means, stds, output scale, terminal loss, time-series loss vs vector-field "
    "parameter, initial value, prior base scale, noise level - forward and reverse derivatives must be finite, agree to 1e-8 "
    "and equal the Richardson differences within 1e-5 plus the differences' own error bar.",
    "Trusted: float64 Richardson differences with two step sizes (their disagreement is the error bar); JAX AD of everything but the repo's custom rules.",
)

reg(
    "C01",
    "accuracy monitor: jitted adaptive solves (save_at, terminal values, save-every-step) and fixed-grid refinement ladders on IVPs with closed-form / DOP853 solutions; constructed tiny-remainder final times; error/tolerance ratio and observed order judged",
    "Eight IVPs (incl. a second-order ODE, Lotka-Volterra, van der Pol, a decay problem with rtol >> atol) x factorisation x calibration x strategy x TS0/TS1 x nu 1..6; "
    "per configuration several solves with tolerances in [1e-9,1e-2] (atol=rtol and atol!=rtol), dt0 log-uniform or from both "
    "initialisers, four checkpoint layouts, clip on/off, and final times placed 1e-2..1e-12 after a natural step end (from a "
    "save-every-step pass). Oracle: |mean-u| <= 50 (atol+rtol|u|) at every requested time. Ladders h..h/8: observed order >= "
    "nu+1-0.75 in the clean regime, >= nu-0.5 elsewhere (stated rule).",
    "Trusted: closed forms / SciPy DOP853 at 1e-13. Three method-level regimes where the statement is stricter than the method are "
    "known findings D6, D6b, D15, D15b, D14b, D16 (the 50-digit EKF reproduces the repo's numbers there; D6b, D15b, D14b are tagged only after a control solve - exact Jacobian, no clipping, offending checkpoints removed - meets the tolerance).",
)

NOT_BUILT_REASON = "not claimed"


def main():
    props = [json.loads(line)["id"] for line in open(os.path.join(HERE, "properties.jsonl"))]
    checks = []
    for pid in props:
        if pid not in CHECKS:
            continue
        c = CHECKS[pid]
        checks.append(
            {
                "property_id": pid,
                "quick_cmd": f"./check {pid} quick",
                "thorough_cmd": f"./check {pid} thorough",
                "evidence_file": f"/verif/evidence/{pid}.json",
                "replay_cmd_template": f"./check {pid} --replay {{path}}",
                "engine": "pdv",
                "level_claimed": {
                    "category": c["category"],
                    "text": c["text"],
                    "design_ref": f"DESIGN.md section 3, {pid}",
                },
                "level_note": c["note"],
                "technique": c["technique"],
            }
        )
    manifest = {
        "version": 1,
        "setup_cmd": "./setup.sh",
        "hooks": {
            "guard": "PROBDIFFEQ_VERIF",
            "enable": "no repository hooks exist: monitors attach at public extension points (solver/error/control/while_loop "
            "parameters, probdiffeq.backend.random module attributes) from the harness; workers export PROBDIFFEQ_VERIF=1 anyway",
            "baseline_off_cmd": BASE,
            "source_commits": [],
            "add_only": True,
        },
        "engines": [
            {
                "name": "pdv",
                "path": "/verif/pdv",
                "serves_properties": sorted(CHECKS),
                "kind_free_text": "runtime monitors: recording proxies + offline trace checkers, reference-model and metamorphic "
                "oracles over executions of the real code, sharded over subprocess workers",
            }
        ],
        "checks": checks,
        "not_applicable": [{"property_id": p, "reason": NOT_BUILT_REASON} for p in props if p not in CHECKS],
        "notes": "All checks: ./check <id> <quick|thorough>; exit 0 held / 1 VIOLATION / 2 inconclusive. "
        "Known findings: /verif/known_findings.json. Fix commits in /repo start with 'fix:'.",
    }
    with open(os.path.join(HERE, "MANIFEST.json"), "w") as fh:
        json.dump(manifest, fh, indent=1)
    print("registered:", sorted(CHECKS))


if __name__ == "__main__":
    main()

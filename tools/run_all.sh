#!/bin/bash
# tools/run_all.sh [quick|thorough] : run every registered check sequentially, print one line each
tier=${1:-quick}
cd /verif
for p in $(python3 -c "import json;print(' '.join(c['property_id'] for c in json.load(open('MANIFEST.json'))['checks']))"); do
  s=$(date +%s)
  ./check $p $tier > /tmp/runall_$p.log 2>&1; rc=$?
  e=$(date +%s)
  echo "$p rc=$rc $((e-s))s $(grep -c '^VIOLATION' /tmp/runall_$p.log) violations, $(grep -c '^KNOWN-FINDING' /tmp/runall_$p.log) known"
done

#!/bin/bash
# tools/check_all_seeds.sh [tier]: apply every seeded change to /repo in turn, run its property's check, expect a VIOLATION.
tier=${1:-quick}
cd /verif
for d in seeded/*/; do
  sid=$(basename $d); prop=${sid%%-*}
  cd /repo; if [ -n "$(git status --porcelain)" ]; then echo "repo dirty"; exit 9; fi
  if ! git apply --check /verif/$d/patch.diff 2>/dev/null; then echo "$sid: patch no longer applies"; cd /verif; continue; fi
  git apply /verif/$d/patch.diff; cd /verif
  ./check $prop $tier --no-evidence > /tmp/seedrun_$sid.log 2>&1; rc=$?
  git -C /repo checkout -- .
  echo "$sid -> $prop rc=$rc ($(grep -c '^VIOLATION' /tmp/seedrun_$sid.log) violations)"
done

#!/bin/bash
# tools/sweep.sh <seed> [tier]: run all checks with VERIF_SEED, no evidence rewrite
seed=$1; tier=${2:-quick}
cd /verif
for p in $(python3 -c "import json;print(' '.join(c['property_id'] for c in json.load(open('MANIFEST.json'))['checks']))"); do
  VERIF_SEED=$seed ./check $p $tier --no-evidence > /tmp/sweep_${seed}_$p.log 2>&1; rc=$?
  echo "$p seed=$seed rc=$rc $(grep -c '^VIOLATION' /tmp/sweep_${seed}_$p.log)v $(grep -c '^INCONCLUSIVE' /tmp/sweep_${seed}_$p.log)i"
done

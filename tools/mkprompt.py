#!/usr/bin/env python3
"""tools/mkprompt.py Cxx [suffix]: create a scratch worktree /tmp/wt_<Cxx><suffix> and the sub-agent prompt file."""
import json, subprocess, sys
pid = sys.argv[1]; suf = sys.argv[2] if len(sys.argv) > 2 else ""
hint = sys.argv[3] if len(sys.argv) > 3 else ""
if hint.startswith("@"):
    hint = json.load(open(hint[1:])).get(pid, "")
wt = f"/tmp/wt_{pid}{suf}"
subprocess.run(["git", "-C", "/repo", "worktree", "add", "-q", "--detach", wt, "HEAD"], check=True)
props = {json.loads(l)["id"]: json.loads(l) for l in open("/verif/properties.jsonl")}
p = props[pid]
tmpl = open("/verif/tools/seed_prompt.txt").read()
txt = tmpl.format(wt=wt, title=p["title"], statement=p["statement"], quant=p["quantifier"]["text"], files=", ".join(p["anchors"]["files"]), hint=hint)
open(f"/tmp/prompt_{pid}{suf}.txt", "w").write(txt)
print(wt)

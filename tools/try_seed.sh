#!/bin/bash
# tools/try_seed.sh <patch.diff> <Cxx> [more check args]  -- apply a seeded change to /repo, run a check, undo.
set -u
patch="$1"; shift
cd /repo || exit 9
if [ -n "$(git status --porcelain)" ]; then echo "repo not clean"; exit 9; fi
git apply "$patch" || { echo "patch does not apply"; exit 9; }
cd /verif
./check "$@" --no-evidence 2>&1 | grep -v "^  suboracle" | tail -6 | cut -c1-600
rc=${PIPESTATUS[0]}
git -C /repo checkout -- .
echo "exit=$rc (1 = caught)"

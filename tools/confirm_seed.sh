#!/bin/bash
# tools/confirm_seed.sh <worktree> <seed-id> <property>: confirm a sub-agent's seeded change independently and file it.
# (patched: tests pass, demo FAILs; original: demo PASSes)
wt="$1"; sid="$2"; prop="$3"
out=/verif/seeded/$sid; mkdir -p $out
cd $wt || exit 9
git checkout -q -- probdiffeq 2>/dev/null
orig=$(PYTHONPATH=$wt JAX_ENABLE_X64=1 timeout 900 /venv/bin/python SEED/demo.py > /tmp/demo_orig_$sid.log 2>&1; echo $?)
git apply SEED/patch.diff || { echo "patch failed"; exit 9; }
pat=$(PYTHONPATH=$wt JAX_ENABLE_X64=1 timeout 900 /venv/bin/python SEED/demo.py > /tmp/demo_pat_$sid.log 2>&1; echo $?)
tests=$(PYTHONPATH=$wt /venv/bin/python -m pytest -q -p no:cacheprovider -n 10 tests 2>&1 | tail -1)
imp=$(PYTHONPATH=$wt /venv/bin/python -c "import probdiffeq; print(probdiffeq.__file__)")
cp SEED/patch.diff SEED/demo.py $out/
cp SEED/notes.md $out/notes.md 2>/dev/null
python3 - "$sid" "$prop" "$orig" "$pat" "$tests" "$imp" <<'PY'
import json,sys
sid,prop,orig,pat,tests,imp=sys.argv[1:7]
notes=open(f'/verif/seeded/{sid}/notes.md').read() if True else ''
meta={"seed_id":sid,"property":prop,"source":"independent sub-agent given only the property text and a scratch worktree",
 "needs_to_manifest":"see notes.md",
 "confirmed":{"demo_exit_original":int(orig),"demo_exit_patched":int(pat),"test_suite_with_patch":tests,"imported_from":imp,
  "commands":["git checkout -- probdiffeq; python SEED/demo.py","git apply SEED/patch.diff; python SEED/demo.py","pytest -q -n 10 tests"]}}
json.dump(meta,open(f'/verif/seeded/{sid}/meta.json','w'),indent=1)
print(sid, "demo orig/patched exit:", orig, pat, "| tests:", tests)
PY

import os
os.environ["XLA_FLAGS"]="--xla_cpu_multi_thread_eigen=false intra_op_parallelism_threads=1"
import jax, jax.numpy as jnp
jax.config.update("jax_enable_x64", True)
from probdiffeq import ivpsolve, probdiffeq
import numpy as np, math, ext
SSM = dict(dense=probdiffeq.state_space_model_dense, iso=probdiffeq.state_space_model_isotropic, bd=probdiffeq.state_space_model_blockdiag)
def Phi1(h,q): return np.array([[h**(j-i)/math.factorial(j-i) if j>=i else 0.0 for j in range(q+1)] for i in range(q+1)])
def Q1(h,q): return np.array([[h**(2*q+1-i-j)/((2*q+1-i-j)*math.factorial(q-i)*math.factorial(q-j)) for j in range(q+1)] for i in range(q+1)])
fnp = lambda y,t: np.asarray([0.5*y[0]-0.3*y[0]*y[1], -0.5*y[1]+0.3*y[0]*y[1]+np.sin(t)])
Jnp = lambda y,t: np.asarray([[0.5-0.3*y[1], -0.3*y[0]],[0.3*y[1], -0.5+0.3*y[0]]])
vf = probdiffeq.ode(lambda y, *, t: jnp.asarray([0.5*y[0]-0.3*y[0]*y[1], -0.5*y[1]+0.3*y[0]*y[1]+jnp.sin(t)]), jacobian=probdiffeq.jacobian_materialize())
u0 = jnp.asarray([0.6,0.7]); d=2
LOG=[]
class Rec:
    def __init__(s, inner): s._i=inner
    def init_error(s): return s._i.init_error()
    def estimate_error_norm(s, state, previous, proposed, **kw):
        out = s._i.estimate_error_norm(state, previous=previous, proposed=proposed, **kw)
        LOG.append((previous, proposed, kw, out[0])); return out
def py_while(cond, body, init=None):
    s=init
    while bool(cond(s)): s=body(s)
    return s
for ssmn in SSM:
  for lin in ["ts0","ts1"]:
    for nu in [2,4]:
      for calib in ["plain","dyn"]:
        for base in [1.0, 3.0]:
            LOG.clear()
            ssm=SSM[ssmn](); tc,_ = probdiffeq.jetexpand_ode_padded_scan(num=nu)(vf,(u0,),t=0.0)
            scale = None if base==1.0 else (base if ssmn=="iso" else base*jnp.ones(2))
            prior = ssm.prior_wiener_integrated(tc, output_scale=scale)
            c = ssm.constraint_ode_ts0(vf) if lin=="ts0" else ssm.constraint_ode_ts1(vf)
            S = dict(plain=probdiffeq.solver, dyn=probdiffeq.solver_dynamic)[calib]
            solver = S(strategy=probdiffeq.strategy_filter(), constraint=c)
            err = probdiffeq.error_residual_std(constraint=c)
            with jax.disable_jit():
                sol = ivpsolve.solve_adaptive_save_at(solver=solver, error=Rec(err), while_loop=py_while)(prior, jnp.asarray([0.0,0.5]), atol=1e-4, rtol=1e-6)
            worst=0
            for (prev, prop, kw, ep) in LOG:
                h=float(kw["dt"]); q=nu; n=q+1
                m_prev,_ = ext.normal_dense(prev.u)
                A=np.kron(Phi1(h,q),np.eye(d)); Q=np.kron(Q1(h,q),np.eye(d))*base**2
                mp_ = A@m_prev
                t=float(prop.t)
                E0=np.kron(np.eye(n)[0:1],np.eye(d)); E1=np.kron(np.eye(n)[1:2],np.eye(d))
                y=mp_[:d]
                if lin=="ts0": H=E1; z=mp_[d:2*d]-fnp(y,t)
                else:
                    J=Jnp(y,t)
                    if ssmn=="iso": J=np.eye(d)*np.trace(J)/d
                    if ssmn=="bd": J=np.diag(np.diag(J))
                    H=E1-J@E0; z=mp_[d:2*d]-fnp(y,t)
                Sm=H@Q@H.T
                if ssmn=="bd":
                    sig = np.sqrt(np.array([z[k]**2/Sm[k,k] for k in range(d)]))   # per dim (1 obs each)
                    errv = sig*np.sqrt(np.diag(Sm))
                else:
                    sig = np.sqrt(z@np.linalg.solve(Sm,z)/d); errv = sig*np.sqrt(np.diag(Sm))
                u_prev=m_prev[:d]; u_new=ext.normal_dense(prop.u)[0][:d]
                ref=np.maximum(np.abs(u_prev),np.abs(u_new))
                norm = np.sqrt(np.mean((errv/(kw["atol"]+kw["rtol"]*ref))**2))  # n = residual_order-1 = 1 -> dt^1/1!
                norm = np.sqrt(np.mean((errv*h/(kw["atol"]+kw["rtol"]*ref))**2))
                epr = norm**(-1.0/(q+1))
                worst=max(worst, abs(epr-float(ep))/abs(epr))
            print(ssmn,lin,nu,calib,base,"calls",len(LOG),"worst rel %.2e"%worst)

import os
os.environ["XLA_FLAGS"]="--xla_cpu_multi_thread_eigen=false intra_op_parallelism_threads=1"
import jax, jax.numpy as jnp
jax.config.update("jax_enable_x64", True)
from probdiffeq import ivpsolve, probdiffeq
import numpy as np
SSM = dict(dense=probdiffeq.state_space_model_dense, iso=probdiffeq.state_space_model_isotropic, bd=probdiffeq.state_space_model_blockdiag)
grid = jnp.asarray([0.0,0.1,0.25,0.45,0.5,0.8])
rng=np.random.default_rng(0)
w1 = jnp.asarray(rng.standard_normal((6,2))); w2=jnp.asarray(rng.standard_normal((6,2))); data = jnp.asarray(rng.standard_normal((6,2)))*0.1+0.5
def make(ssmn, calib, strat, lin, exact):
    def F(theta):
        a,b,u00,sc,noise = theta
        vf = probdiffeq.ode(lambda y, *, t: jnp.asarray([a*y[0]-b*y[0]*y[1], -a*y[1]+b*y[0]*y[1]+jnp.sin(t)]))
        u0 = jnp.asarray([u00, 0.7])
        ssm = SSM[ssmn]()
        tc,_ = probdiffeq.jetexpand_ode_padded_scan(num=2)(vf,(u0,),t=0.0)
        scale = sc if ssmn=="iso" else sc*jnp.ones(2)
        prior = ssm.prior_wiener_integrated(tc, output_scale=scale, is_exact=exact)
        c = ssm.constraint_ode_ts0(vf) if lin=="ts0" else ssm.constraint_ode_ts1(vf, )
        st = dict(filter=probdiffeq.strategy_filter, fi=probdiffeq.strategy_smoother_fixedinterval)[strat]()
        S = dict(plain=probdiffeq.solver, mle=probdiffeq.solver_mle, dyn=lambda **kw: probdiffeq.solver_dynamic(stop_gradient_through_calibration=False, **kw))[calib]
        solver = S(strategy=st, constraint=c)
        sol = ivpsolve.solve_fixed_grid(solver=solver)(prior, grid=grid)
        out = jnp.sum(w1*sol.u.mean[0]) 
        std = sol.u.std[0]
        std = std[:,None]*jnp.ones((1,2)) if std.ndim==1 else std
        out = out + 1e3*jnp.sum(w2[1:]*std[1:]) + jnp.sum(sol.output_scale)
        if strat=="fi":
            s = noise*jnp.ones(6) if ssmn=="iso" else noise*jnp.ones((6,2))
            out = out + probdiffeq.loss_lml_timeseries()(data, posterior=sol.solution_full.posterior, std=s)
        return out
    return F
theta = jnp.asarray([0.5,0.3,0.6,1.7,0.2])
for ssmn in SSM:
  for calib in ["plain","mle","dyn"]:
    for strat in ["filter","fi"]:
      for lin in ["ts0","ts1"]:
        for exact in [True, False]:
            F = jax.jit(make(ssmn,calib,strat,lin,exact))
            g_rev = jax.jit(jax.grad(F))(theta)
            g_fwd = jax.jit(jax.jacfwd(F))(theta)
            fd=[]
            for i in range(5):
                h=1e-5*max(1,abs(float(theta[i]))); e=jnp.zeros(5).at[i].set(h)
                d1=(F(theta+e)-F(theta-e))/(2*h); d2=(F(theta+2*e)-F(theta-2*e))/(4*h)
                fd.append((4*d1-d2)/3)
            fd=jnp.asarray(fd)
            sc = jnp.abs(fd)+1e-8*jnp.abs(F(theta))+1e-12
            print(ssmn,calib,strat,lin,exact, "fwd-rev %.1e"%float((jnp.abs(g_rev-g_fwd)/sc).max()), "ad-fd %.1e"%float((jnp.abs(g_rev-fd)/sc).max()), "finite", bool(jnp.all(jnp.isfinite(g_rev))))

"""Prototype dense embedding of repo objects (coefficient-major layout)."""
import numpy as np
def kind(obj):
    return type(obj).__name__
def normal_dense(rv):
    k = kind(rv); m = np.asarray(rv.mean_flat, dtype=float); C = np.asarray(rv.cholesky_flat, dtype=float)
    if k.startswith("Dense"):
        return m, C @ C.T
    if k.startswith("Isotropic"):
        n, d = m.shape; cov = np.kron(C @ C.T, np.eye(d)); return m.reshape(-1), cov
    if k.startswith("BlockDiag"):
        d, n = m.shape; cov = np.zeros((n*d, n*d))
        for kk in range(d):
            S = C[kk] @ C[kk].T
            for i in range(n):
                for j in range(n): cov[i*d+kk, j*d+kk] = S[i,j]
        return m.T.reshape(-1), cov
    raise TypeError(k)
def cond_dense(c):
    """return (G, xi, Sigma) with y = G x + N(xi, Sigma) in unpreconditioned dense coordinates"""
    k = kind(c); A=np.asarray(c.A,dtype=float); tl=np.asarray(c.to_latent,dtype=float); to=np.asarray(c.to_observed,dtype=float)
    nm=np.asarray(c.noise.mean_flat,dtype=float); nc=np.asarray(c.noise.cholesky_flat,dtype=float)
    if k.startswith("Dense"):
        G = to[:,None]*A*tl[None,:]; xi = to*nm; L = np.abs(to)[:,None]*nc; return G, xi, L@L.T
    if k.startswith("Isotropic"):
        mo, d = nm.shape
        G1 = to[:,None]*A*tl[None,:]; L=np.abs(to)[:,None]*nc
        return np.kron(G1, np.eye(d)), (to[:,None]*nm).reshape(-1), np.kron(L@L.T, np.eye(d))
    if k.startswith("BlockDiag"):
        d, mo, n = A.shape
        G=np.zeros((mo*d, n*d)); Sig=np.zeros((mo*d,mo*d)); xi=np.zeros(mo*d)
        for kk in range(d):
            Gk = to[kk][:,None]*A[kk]*tl[kk][None,:]; Lk=np.abs(to[kk])[:,None]*nc[kk]; Sk=Lk@Lk.T
            for i in range(mo):
                xi[i*d+kk] = to[kk][i]*nm[kk][i]
                for j in range(n): G[i*d+kk, j*d+kk]=Gk[i,j]
                for j in range(mo): Sig[i*d+kk, j*d+kk]=Sk[i,j]
        return G, xi, Sig
    raise TypeError(k)
def index(tree, i):
    import jax
    return jax.tree.map(lambda s: s[i], tree)
def markov_joint(post):
    """joint mean/cov over all times for a reverse MarkovSequence (marginal at final time, N conditionals)"""
    import jax
    mT, PT = normal_dense(post.marginal)
    N = jax.tree.leaves(post.conditional)[0].shape[0]
    D = mT.size
    # x_k = G_k x_{k+1} + e_k
    means=[None]*(N+1); means[N]=mT
    # linear maps from (x_N, e_{N-1},...,e_0) : build covariance via recursion
    covs = {(N,N): PT}
    Gs=[None]*N
    for k in range(N-1,-1,-1):
        G, xi, Sig = cond_dense(index(post.conditional, k)); Gs[k]=G
        means[k] = G@means[k+1]+xi
        covs[(k,k)] = G@covs[(k+1,k+1)]@G.T + Sig
        for j in range(k+1, N+1):
            covs[(k,j)] = G@covs[(k+1,j)]
    M = np.concatenate(means); P=np.zeros(((N+1)*D,(N+1)*D))
    for (a,b),v in covs.items():
        P[a*D:(a+1)*D, b*D:(b+1)*D]=v; P[b*D:(b+1)*D, a*D:(a+1)*D]=v.T
    return M, P, D

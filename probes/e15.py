import jax, jax.numpy as jnp
jax.config.update("jax_enable_x64", True)
import numpy as np
from probdiffeq._probdiffeq import ssm_impl_dense as D
from probdiffeq.backend import linalg
from probdiffeq.util import cholesky_util
rng = np.random.default_rng(3)
found=0
for trial in range(20000):
    n = rng.integers(2,5); k = rng.integers(2,n+1)
    Lx = rng.standard_normal((n,n)); Ln=np.zeros((k,k))
    A = rng.standard_normal((k,n))
    dup = rng.random()<0.5
    if dup: A[1]=A[0]
    rv = D.DenseNormal(jnp.zeros(n), jnp.asarray(Lx), None); noise = D.DenseNormal(jnp.zeros(k), jnp.asarray(Ln), None)
    cond = D.DenseLatentCond.from_linop_and_noise(jnp.asarray(A), noise)
    obs, bwd = cond.revert(rv, solve_triu=linalg.lstsq_svd)
    G=np.asarray(bwd.A); Lc=np.asarray(bwd.noise.cholesky_flat); Ly=np.asarray(obs.cholesky_flat)
    Pyy=Ly@Ly.T; Px=Lx@Lx.T
    e1 = np.abs(G@Pyy@G.T+Lc@Lc.T-Px).max(); e2=np.abs(G@Pyy-Px@A.T).max(); e3=np.abs(Pyy-A@Px@A.T).max()
    if max(e1,e2,e3)>1e-8:
        found+=1
        if found<=2:
            print("n,k,dup",n,k,dup,"errs Pxx %.2e Pxy %.2e Pyy %.2e"%(e1,e2,e3))
            R_X_F=(A@Lx).T; R_X=Lx.T; R_YX=Ln.T
            R = np.block([[R_YX, np.zeros((k,n))],[R_X_F,R_X]])
            Rq = np.asarray(linalg.qr_r(jnp.asarray(R)))
            np.set_printoptions(precision=3, suppress=True, linewidth=200)
            print("R after qr:\n", Rq)
print("found", found, "of 20000")

import os
os.environ["XLA_FLAGS"]="--xla_cpu_multi_thread_eigen=false intra_op_parallelism_threads=1"
import jax, jax.numpy as jnp
jax.config.update("jax_enable_x64", True)
from probdiffeq import ivpsolve, probdiffeq
import numpy as np
grid = jnp.asarray([0.0,0.1,0.25,0.45])
def F(theta, what):
    a,b = theta
    vf = probdiffeq.ode(lambda y, *, t: jnp.asarray([a*y[0]-b*y[0]*y[1], -a*y[1]+b*y[0]*y[1]+jnp.sin(t)]), jacobian=probdiffeq.jacobian_materialize())
    u0 = jnp.asarray([0.6, 0.7])
    ssm = probdiffeq.state_space_model_dense()
    tc,_ = probdiffeq.jetexpand_ode_padded_scan(num=2)(vf,(u0,),t=0.0)
    prior = ssm.prior_wiener_integrated(tc, is_exact=False)
    c = ssm.constraint_ode_ts1(vf)
    solver = probdiffeq.solver(strategy=probdiffeq.strategy_filter(), constraint=c)
    sol = ivpsolve.solve_fixed_grid(solver=solver)(prior, grid=grid)
    if what=="mean": return sol.u.mean[0][-1,0]
    if what=="std": return sol.u.std[0][-1,0]
    if what=="cov": return sol.u.to_multivariate_normal()[1][-1,0,1]
theta=jnp.asarray([0.5,0.3])
for what in ["mean","std","cov"]:
    f = lambda th: F(th, what)
    g = jax.grad(f)(theta); gf = jax.jacfwd(f)(theta)
    fd=[]
    for i in range(2):
        h=1e-5; e=jnp.zeros(2).at[i].set(h)
        d1=(f(theta+e)-f(theta-e))/(2*h); d2=(f(theta+2*e)-f(theta-2*e))/(4*h); fd.append(float((4*d1-d2)/3))
    print(what, "value", float(f(theta)), "rev", np.asarray(g), "fwd", np.asarray(gf), "fd", fd)

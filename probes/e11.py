import os
os.environ["XLA_FLAGS"]="--xla_cpu_multi_thread_eigen=false intra_op_parallelism_threads=1"
import jax, jax.numpy as jnp, time
jax.config.update("jax_enable_x64", True)
from probdiffeq import ivpsolve, probdiffeq
import numpy as np
LOG=[]
class Rec:
    def __init__(self, inner, name): self._i=inner; self._n=name
    def __getattr__(self, k):
        a = getattr(self._i, k)
        if not callable(a): return a
        def w(*args, **kw):
            out = a(*args, **kw)
            LOG.append((self._n, k, {kk: (float(v) if np.ndim(v)==0 and not isinstance(v,(tuple,list)) else None) for kk,v in kw.items() if kk in ("dt","t","atol","rtol")}, out))
            return out
        return w
def py_while(cond, body, init=None):
    s = init; n=0
    while bool(cond(s)):
        LOG.append(("while", type(s).__name__, n, s)); s = body(s); n+=1
    return s
vf = probdiffeq.ode(lambda y, *, t: -y + jnp.sin(t))
u0 = jnp.asarray([1.0, 0.3])
ssm = probdiffeq.state_space_model_blockdiag()
tc,_ = probdiffeq.jetexpand_ode_padded_scan(num=3)(vf,(u0,),t=0.0)
prior = ssm.prior_wiener_integrated(tc)
c = ssm.constraint_ode_ts1(vf)
solver = probdiffeq.solver_mle(strategy=probdiffeq.strategy_smoother_fixedpoint(), constraint=c)
err = probdiffeq.error_residual_std(constraint=c)
ctrl = ivpsolve.control_proportional_integral()
solve = ivpsolve.solve_adaptive_save_at(solver=Rec(solver,"solver"), error=Rec(err,"error"), control=Rec(ctrl,"control"), while_loop=py_while, clip_dt=True)
t0=time.time()
with jax.disable_jit():
    sol = solve(prior, jnp.asarray([0.0, 0.4, 0.41, 1.0]), atol=1e-5, rtol=1e-5, dt0=1.0)
print("time", time.time()-t0, "events", len(LOG))
for e in LOG[:60]:
    if e[0]=="while": print("  while", e[1], e[2], "dt=%.4g acc=%.4g"%(float(e[3].dt), float(e[3].acceptance_factor_proposed)) if e[1]=="_RejectionLoopState" else "")
    elif e[0]=="error": print("  error", e[2], "->", float(e[3][0]))
    elif e[0]=="control": print("  control", e[1], (float(e[3][0]) if e[1]=="apply" else e[3]))
    else: print("  ", e[0], e[1], e[2], "t_out=", getattr(e[3],"t",None) if not isinstance(e[3],tuple) else getattr(e[3][0],"t",None))
print(sol.t, sol.num_steps)
solj = jax.jit(ivpsolve.solve_adaptive_save_at(solver=solver, error=err, control=ctrl, clip_dt=True))(prior, jnp.asarray([0.0, 0.4, 0.41, 1.0]), atol=1e-5, rtol=1e-5, dt0=1.0)
print("jit vs eager", float(jnp.abs(solj.u.mean[0]-sol.u.mean[0]).max()), solj.num_steps)

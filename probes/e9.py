import os
os.environ["XLA_FLAGS"]="--xla_cpu_multi_thread_eigen=false intra_op_parallelism_threads=1"
import jax, jax.numpy as jnp
jax.config.update("jax_enable_x64", True)
from probdiffeq import ivpsolve, probdiffeq
from probdiffeq.util import test_util
import numpy as np, sys, math
import mpmath as mp
mp.mp.dps = 60
f=lambda y,t: jnp.asarray([-y[0]+jnp.sin(t), -2*y[1]+y[0]]); u0=jnp.asarray([1.0,0.5])
T=3.0
vf = probdiffeq.ode(lambda y, *, t: f(y,t))
nu=int(sys.argv[1]); tol=float(sys.argv[2])
ssm = probdiffeq.state_space_model_dense()
tc,_ = probdiffeq.jetexpand_ode_padded_scan(num=nu)(vf,(u0,),t=0.0)
prior = ssm.prior_wiener_integrated(tc)
c = ssm.constraint_ode_ts0(vf)
solver = probdiffeq.solver(strategy=probdiffeq.strategy_filter(), constraint=c)
err = probdiffeq.error_residual_std(constraint=c)
sol = test_util.solve_adaptive_save_every_step(solver=solver, error=err)(prior, 0.0, T, atol=tol, rtol=tol)
ts = [float(t) for t in np.asarray(sol.t)]
mean_repo, cov_repo = sol.u.to_multivariate_normal()
mean_repo=np.asarray(mean_repo); cov_repo=np.asarray(cov_repo)
# reference EKF0 in mpmath, dense ordering: coefficient-major (n=nu+1, d=2)
n=nu+1; d=2
def Phi(h):
    M = mp.zeros(n*d)
    for i in range(n):
        for j in range(i,n):
            v = mp.mpf(h)**(j-i)/mp.factorial(j-i)
            for k in range(d): M[i*d+k, j*d+k]=v
    return M
def Q(h):
    M = mp.zeros(n*d)
    q=nu
    for i in range(n):
        for j in range(n):
            e = 2*q+1-i-j
            v = mp.mpf(h)**e/(e*mp.factorial(q-i)*mp.factorial(q-j))
            for k in range(d): M[i*d+k, j*d+k]=v
    return M
m = mp.matrix([mp.mpf(float(x)) for x in np.concatenate([np.asarray(t) for t in tc])])
P = mp.zeros(n*d)
H = mp.zeros(d, n*d)
for k in range(d): H[k, 1*d+k]=1
for i in range(1,len(ts)):
    h = mp.mpf(ts[i])-mp.mpf(ts[i-1])
    A=Phi(h); m = A*m; P = A*P*A.T + Q(h)
    t = mp.mpf(ts[i])
    fx = mp.matrix([-m[0]+mp.sin(t), -2*m[1]+m[0]])
    z = H*m - fx
    S = H*P*H.T
    K = P*H.T*S**-1
    m = m - K*z; P = P - K*S*K.T
    dm = max(abs(float(m[j])-mean_repo[i][j])/(abs(float(m[j]))+1e-300) for j in range(n*d))
    dP = max(abs(float(P[a,b])-cov_repo[i][a,b])/(math.sqrt(abs(float(P[a,a])*float(P[b,b])))+1e-300) for a in range(n*d) for b in range(n*d))
    print(i, "t=%.4f"%ts[i], "ref u", float(m[0]), float(m[1]), "repo u", mean_repo[i][0], mean_repo[i][1], "relmean %.2e relcov %.2e"%(dm,dP))

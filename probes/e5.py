import jax, jax.numpy as jnp, warnings
jax.config.update("jax_enable_x64", True)
from probdiffeq import ivpsolve, probdiffeq
import numpy as np

@probdiffeq.ode
def vf(y, /, *, t):
    return -y + jnp.sin(t)
SSM = dict(dense=probdiffeq.state_space_model_dense, iso=probdiffeq.state_space_model_isotropic, bd=probdiffeq.state_space_model_blockdiag)
d=3
u0 = jnp.arange(1.0, d+1)
tc,_ = probdiffeq.jetexpand_ode_padded_scan(num=2)(vf,(u0,),t=0.0)

def attempt(label, fn):
    try:
        out = fn()
        leaves = jax.tree.leaves(out)
        print("  NUMBERS", label, [np.shape(l) for l in leaves][:4])
    except Exception as e:
        print("  raised ", label, type(e).__name__, str(e)[:70].replace("\n"," "))

def run(prior, ssm):
    c = ssm.constraint_ode_ts0(vf)
    solver = probdiffeq.solver(strategy=probdiffeq.strategy_filter(), constraint=c)
    return ivpsolve.solve_fixed_grid(solver=solver)(prior, grid=jnp.linspace(0,1,4)).u.mean

for name, f in SSM.items():
    ssm = f()
    print(name)
    for lab, sc in [("scale ()", jnp.asarray(2.0)), ("scale (1,)", jnp.ones((1,))), ("scale (d,)", jnp.ones((d,))), ("scale (d,1)", jnp.ones((d,1))), ("scale (1,d)", jnp.ones((1,d))), ("scale (d,d)", jnp.ones((d,d))), ("scale list", [1.0]*d), ("scale (2,)", jnp.ones((2,)))]:
        attempt(lab, lambda: run(ssm.prior_wiener_integrated(tc, output_scale=sc), ssm))
    for lab, ex in [("exact list bool", [True,False,True]), ("exact short list", [True,False]), ("exact int", 1), ("exact float arr", [jnp.ones(d)]*3), ("exact bool arr leaves", [jnp.ones(d,dtype=bool)]*3), ("exact (1,) leaves", [jnp.ones((1,),dtype=bool)]*3), ("exact np.bool_", np.bool_(True)), ("exact jnp bool", jnp.asarray(True))]:
        attempt(lab, lambda: run(ssm.prior_wiener_integrated(tc, is_exact=ex), ssm))
    for lab, tcs in [("tcoeffs array", jnp.stack(tc)), ("tcoeffs ragged", [tc[0], tc[1][:2], tc[2]]), ("tcoeffs tuple", tuple(tc)), ("tcoeffs scalar leaves mix", [tc[0], 1.0, tc[2]])]:
        attempt(lab, lambda: run(ssm.prior_wiener_integrated(tcs), ssm))
    attempt("plain fn to ts0", lambda: ssm.constraint_ode_ts0(lambda y, t: y))
    attempt("plain fn to ts1", lambda: ssm.constraint_ode_ts1(lambda y, t: y))
    attempt("plain fn to residual", lambda: ssm.constraint_residual(lambda y, t: y))

import os
os.environ["XLA_FLAGS"]="--xla_cpu_multi_thread_eigen=false intra_op_parallelism_threads=1"
import jax, jax.numpy as jnp
jax.config.update("jax_enable_x64", True)
from probdiffeq import ivpsolve, probdiffeq
import probdiffeq.backend.random as brandom
import numpy as np, scipy.stats, ext
SSM = dict(dense=probdiffeq.state_space_model_dense, iso=probdiffeq.state_space_model_isotropic, bd=probdiffeq.state_space_model_blockdiag)
vf = probdiffeq.ode(lambda y, *, t: jnp.asarray([0.5*y[0]-0.3*y[0]*y[1], -0.5*y[1]+0.3*y[0]*y[1]+jnp.sin(t)]))
u0 = jnp.asarray([0.6,0.7]); d=2; nu=2; n=nu+1
rng=np.random.default_rng(1)
for ssmn in SSM:
  for mode in ["fi_grid","fp_saveat"]:
    for exact in [True, False]:
      for calib in ["plain","mle","dyn"]:
        ssm=SSM[ssmn](); tc,_ = probdiffeq.jetexpand_ode_padded_scan(num=nu)(vf,(u0,),t=0.0)
        prior = ssm.prior_wiener_integrated(tc, is_exact=exact)
        c = ssm.constraint_ode_ts1(vf)
        S = dict(plain=probdiffeq.solver, mle=probdiffeq.solver_mle, dyn=probdiffeq.solver_dynamic)[calib]
        ts = jnp.asarray([0.0,0.1,0.25,0.45,0.5,0.8])
        if mode=="fi_grid":
            solver = S(strategy=probdiffeq.strategy_smoother_fixedinterval(), constraint=c)
            sol = ivpsolve.solve_fixed_grid(solver=solver)(prior, grid=ts)
        else:
            solver = S(strategy=probdiffeq.strategy_smoother_fixedpoint(), constraint=c)
            err = probdiffeq.error_residual_std(constraint=c)
            sol = ivpsolve.solve_adaptive_save_at(solver=solver, error=err)(prior, ts, atol=1e-3, rtol=1e-3)
        post = sol.solution_full.posterior.remove_filtering_distributions()
        M,P,D = ext.markov_joint(post)
        N=len(ts)
        # marginals check vs sol.u
        mu, cu = sol.u.to_multivariate_normal()
        em = max(np.abs(M[k*D:(k+1)*D]-np.asarray(mu[k])).max() for k in range(N))
        ec = max(np.abs(P[k*D:(k+1)*D,k*D:(k+1)*D]-np.asarray(cu[k])).max() for k in range(N))
        res=[]
        for tci in [0,1]:
          for avg in [True,False]:
            data = rng.standard_normal((N,d))*0.05 + np.asarray(sol.u.mean[tci])
            stdv = np.exp(rng.uniform(-3,0,size=(N,) if ssmn=="iso" else (N,d)))
            lml = probdiffeq.loss_lml_timeseries(average_pdfs=avg, tcoeff_index=tci)(jnp.asarray(data), posterior=sol.solution_full.posterior, std=jnp.asarray(stdv))
            rows = np.concatenate([np.arange(k*D+tci*d, k*D+tci*d+d) for k in range(N)])
            Sfull = P[np.ix_(rows,rows)] + np.diag((stdv[:,None]*np.ones((1,d))).reshape(-1)**2 if ssmn=="iso" else stdv.reshape(-1)**2)
            ref = scipy.stats.multivariate_normal(M[rows], Sfull, allow_singular=True).logpdf(data.reshape(-1))
            if avg: ref/=N
            res.append(abs(float(lml)-ref)/(abs(ref)+1))
        # sampling Gram
        base = {"i":0}
        zero = post.sample(jax.random.PRNGKey(0)) if False else None
        print(ssmn, mode, exact, calib, "marg dm %.1e dc %.1e"%(em,ec), "lml relerr", ["%.1e"%r for r in res])

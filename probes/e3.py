import jax, jax.numpy as jnp
jax.config.update("jax_enable_x64", True)
from probdiffeq import ivpsolve, probdiffeq
import numpy as np

@probdiffeq.ode
def vf(y, /, *, t):
    return 2*y*(1-y)
def exact(t, u0=0.1):
    return u0*np.exp(2*t)/(1-u0+u0*np.exp(2*t))
u0 = jnp.asarray([0.1])
T=1.0
for lin in ["ts0","ts1"]:
  for strat in ["filter","fi"]:
    for nu in [1,2,3,4,5]:
        ssm = probdiffeq.state_space_model_dense()
        tc,_ = probdiffeq.jetexpand_ode_padded_scan(num=nu)(vf,(u0,),t=0.0)
        prior = ssm.prior_wiener_integrated(tc)
        c = ssm.constraint_ode_ts0(vf) if lin=="ts0" else ssm.constraint_ode_ts1(vf, )
        st = probdiffeq.strategy_filter() if strat=="filter" else probdiffeq.strategy_smoother_fixedinterval()
        solver = probdiffeq.solver(strategy=st, constraint=c)
        solve = jax.jit(ivpsolve.solve_fixed_grid(solver=solver))
        errs=[]; errs_mid=[]
        for N in [8,16,32,64,128]:
            grid = jnp.linspace(0,T,N+1)
            sol = solve(prior, grid=grid)
            m = np.asarray(sol.u.mean[0])[:,0]
            errs.append(abs(m[-1]-exact(T)))
            errs_mid.append(np.max(np.abs(m[:-1]-exact(np.asarray(grid[:-1])))))
        r = [np.log2(errs[i]/errs[i+1]) for i in range(len(errs)-1)]
        rm = [np.log2(errs_mid[i]/errs_mid[i+1]) for i in range(len(errs)-1)]
        print(lin, strat, "nu",nu, "final-order", np.round(r,2), "interior-order", np.round(rm,2), "err", errs[-1])

import os
os.environ["XLA_FLAGS"]="--xla_cpu_multi_thread_eigen=false intra_op_parallelism_threads=1"
import jax, jax.numpy as jnp
jax.config.update("jax_enable_x64", True)
from probdiffeq import ivpsolve, probdiffeq
import numpy as np
SSM = dict(dense=probdiffeq.state_space_model_dense, iso=probdiffeq.state_space_model_isotropic, bd=probdiffeq.state_space_model_blockdiag)
grid = jnp.asarray([0.0,0.1,0.25,0.45])
data = jnp.asarray(np.random.default_rng(0).standard_normal((4,2)))*0.1+0.5
def make(ssmn, calib, strat, exact, what, noise_equal=True):
    def F(theta):
        a,sc,noise = theta
        vf = probdiffeq.ode(lambda y, *, t: jnp.asarray([a*y[0]-0.3*y[0]*y[1], -a*y[1]+0.3*y[0]*y[1]+jnp.sin(t)]))
        u0 = jnp.asarray([0.6, 0.7]); ssm = SSM[ssmn]()
        tc,_ = probdiffeq.jetexpand_ode_padded_scan(num=2)(vf,(u0,),t=0.0)
        prior = ssm.prior_wiener_integrated(tc, output_scale=(sc if ssmn=="iso" else sc*jnp.ones(2)), is_exact=exact)
        c = ssm.constraint_ode_ts0(vf)
        st = dict(filter=probdiffeq.strategy_filter, fi=probdiffeq.strategy_smoother_fixedinterval)[strat]()
        S = dict(plain=probdiffeq.solver, mle=probdiffeq.solver_mle)[calib]
        sol = ivpsolve.solve_fixed_grid(solver=S(strategy=st, constraint=c))(prior, grid=grid)
        if what=="mean": return jnp.sum(sol.u.mean[0])
        if what=="std_last": return jnp.sum(jnp.asarray(sol.u.std[0])[-1])
        if what=="cov_last": return jnp.sum(sol.u.to_multivariate_normal()[1][-1])
        if what=="scale": return jnp.sum(sol.output_scale)
        if what=="loss":
            w = jnp.ones(4) if noise_equal else jnp.asarray([1.0,1.3,0.7,2.0])
            s = noise*w if ssmn=="iso" else noise*w[:,None]*(jnp.ones((1,2)) if noise_equal else jnp.asarray([[1.0,1.7]]))
            return probdiffeq.loss_lml_timeseries()(data, posterior=sol.solution_full.posterior, std=s)
        if what=="loss_term":
            s = noise if ssmn=="iso" else noise*jnp.ones(2)
            return probdiffeq.loss_lml_terminal_values()(data[-1], marginals=jax.tree.map(lambda x: x[-1], sol.u), std=s)
    return F
theta=jnp.asarray([0.5,1.7,0.2])
for (ssmn,calib,strat,exact) in [("dense","plain","fi",False),("dense","plain","fi",True),("iso","mle","filter",True),("bd","mle","filter",True),("iso","plain","fi",True),("iso","plain","fi",False)]:
    for what in ["mean","std_last","cov_last","scale","loss","loss_uneq","loss_term"]:
        if what.startswith("loss") and strat!="fi" and what!="loss_term": continue
        F = make(ssmn,calib,strat,exact, "loss" if what=="loss_uneq" else what, noise_equal=(what!="loss_uneq"))
        try:
            g = jax.grad(F)(theta); print(ssmn,calib,strat,exact,what, "grad", np.asarray(g))
        except Exception as e: print(ssmn,calib,strat,exact,what,"EXC",type(e).__name__, str(e)[:80])

import os
os.environ["XLA_FLAGS"]="--xla_cpu_multi_thread_eigen=false intra_op_parallelism_threads=1"
import jax, jax.numpy as jnp
jax.config.update("jax_enable_x64", True)
from probdiffeq import ivpsolve, probdiffeq
import numpy as np, scipy.integrate
def lin(y,t): return jnp.asarray([-y[0]+jnp.sin(t), -2*y[1]+y[0]])
def lin_np(t,y): return np.asarray([-y[0]+np.sin(t), -2*y[1]+y[0]])
u0=jnp.asarray([1.0,0.5]); T=3.0
vf = probdiffeq.ode(lambda y, *, t: lin(y,t))
SSM = dict(dense=probdiffeq.state_space_model_dense, iso=probdiffeq.state_space_model_isotropic, bd=probdiffeq.state_space_model_blockdiag)
save_at = jnp.linspace(0,T,13)
ref = scipy.integrate.solve_ivp(lin_np, (0,T), np.asarray(u0), t_eval=np.asarray(save_at), rtol=1e-13, atol=1e-13, method="DOP853").y.T
for ssmn in SSM:
  for strat in ["filter","fp"]:
    for nu in [4,5,6]:
      for tol in [1e-1,1e-2,1e-3]:
        ssm = SSM[ssmn]()
        tc,_ = probdiffeq.jetexpand_ode_padded_scan(num=nu)(vf,(u0,),t=0.0)
        prior = ssm.prior_wiener_integrated(tc)
        c = ssm.constraint_ode_ts0(vf)
        st = dict(filter=probdiffeq.strategy_filter, fp=probdiffeq.strategy_smoother_fixedpoint)[strat]()
        solver = probdiffeq.solver(strategy=st, constraint=c)
        err = probdiffeq.error_residual_std(constraint=c)
        solve = jax.jit(ivpsolve.solve_adaptive_save_at(solver=solver, error=err))
        sol = solve(prior, save_at, atol=tol, rtol=tol)
        m = np.asarray(sol.u.mean[0])
        r = np.max(np.abs(m-ref)/(tol+tol*np.abs(ref)),axis=1)
        print(ssmn, strat, nu, tol, "steps", int(sol.num_steps[-1]), "maxratio %.3g"%r.max(), np.round(r,2)[:13])

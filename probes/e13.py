import os
os.environ["XLA_FLAGS"]="--xla_cpu_multi_thread_eigen=false intra_op_parallelism_threads=1"
import jax, jax.numpy as jnp
jax.config.update("jax_enable_x64", True)
import numpy as np
from probdiffeq._probdiffeq import ssm_impl_dense as D
from probdiffeq.backend import linalg
rng = np.random.default_rng(0)
tf = None
def rand_factor(n, kind):
    if kind=="full": return rng.standard_normal((n,n))
    if kind=="zero": return np.zeros((n,n))
    if kind=="lowrank":
        r = rng.integers(1,n) if n>1 else 0
        return rng.standard_normal((n,r)) @ rng.standard_normal((r,n)) if r>0 else np.zeros((n,n))
    if kind=="zeropivot":
        L = np.tril(rng.standard_normal((n,n))); idx = rng.integers(0,n); L[idx,:]=0; return L
    if kind=="diagzeros":
        dd = rng.standard_normal(n); dd[rng.random(n)<0.5]=0; return np.diag(dd)
worst={}
bad=[]
for trial in range(3000):
    n = rng.integers(1,6); k = rng.integers(1,n+1)
    kx = rng.choice(["full","zero","lowrank","zeropivot","diagzeros"]); kn = rng.choice(["full","zero","lowrank","zeropivot","diagzeros"])
    Lx = rand_factor(n,kx); Ln = rand_factor(k,kn)
    A = rng.standard_normal((k,n))
    if rng.random()<0.3: A[rng.integers(0,k)] = A[0]  # duplicate rows
    if rng.random()<0.2: A[:, rng.integers(0,n)] = 0
    m = rng.standard_normal(n); b = rng.standard_normal(k)
    tl = np.exp(rng.uniform(-3,3,n)); to = np.exp(rng.uniform(-3,3,k))
    rv = D.DenseNormal(jnp.asarray(m), jnp.asarray(Lx), tf)
    noise = D.DenseNormal(jnp.asarray(b), jnp.asarray(Ln), tf)
    cond = D.DenseLatentCond(jnp.asarray(A), noise, to_latent=jnp.asarray(tl), to_observed=jnp.asarray(to))
    obs, bwd = cond.revert(rv, solve_triu=linalg.lstsq_svd)
    # forward joint
    Ae = to[:,None]*A*tl[None,:]; be = to*b; Qe = (to[:,None]*Ln)@(to[:,None]*Ln).T
    Px = Lx@Lx.T
    my = Ae@m+be; Pyy = Ae@Px@Ae.T+Qe; Pxy = Px@Ae.T
    # backward joint
    G = np.asarray(bwd.to_observed)[:,None]*np.asarray(bwd.A)*np.asarray(bwd.to_latent)[None,:]
    xi = np.asarray(bwd.to_observed)*np.asarray(bwd.noise.mean_flat)
    Lc = np.abs(np.asarray(bwd.to_observed))[:,None]*np.asarray(bwd.noise.cholesky_flat)
    my2 = np.asarray(obs.mean_flat); Pyy2 = np.asarray(obs.cholesky_flat)@np.asarray(obs.cholesky_flat).T
    mx2 = G@my2+xi; Pxx2 = G@Pyy2@G.T + Lc@Lc.T; Pxy2 = G@Pyy2
    sx = np.sqrt(np.diag(Px))+1e-300; sy=np.sqrt(np.diag(Pyy))+1e-300
    e = max(np.abs(my-my2).max()/(1+np.abs(my).max()), np.abs(mx2-m).max()/(1+np.abs(m).max()),
            (np.abs(Pyy-Pyy2)/(np.outer(sy,sy)+1e-30)).max(), (np.abs(Pxx2-Px)/(np.outer(sx,sx)+1e-30)).max(), (np.abs(Pxy2-Pxy)/(np.outer(sx,sy)+1e-30)).max())
    key=(kx,kn)
    if not np.isfinite(e): e=np.inf
    worst[key]=max(worst.get(key,0),e)
    if e>1e-6: bad.append((e,n,k,kx,kn))
for k_,v in sorted(worst.items()): print(k_, "%.2e"%v)
print("bad", len(bad), sorted(bad)[-5:])

import jax, jax.numpy as jnp
jax.config.update("jax_enable_x64", True)
from probdiffeq import ivpsolve, probdiffeq
import probdiffeq.backend.random as brandom
import numpy as np

@probdiffeq.ode
def vf(y, /, *, t):
    return jnp.asarray([0.5*y[0]-0.05*y[0]*y[1], -0.5*y[1]+0.05*y[0]*y[1]])
u0 = jnp.asarray([2.0, 3.0])
SSM = dict(dense=probdiffeq.state_space_model_dense, iso=probdiffeq.state_space_model_isotropic, bd=probdiffeq.state_space_model_blockdiag)

def build(ssmn, strat, calib="plain", lin="ts0", nu=3, scale=None):
    ssm = SSM[ssmn]()
    tc,_ = probdiffeq.jetexpand_ode_padded_scan(num=nu)(vf,(u0,),t=0.0)
    prior = ssm.prior_wiener_integrated(tc, output_scale=scale)
    c = ssm.constraint_ode_ts0(vf) if lin=="ts0" else ssm.constraint_ode_ts1(vf)
    st = dict(filter=probdiffeq.strategy_filter, fp=probdiffeq.strategy_smoother_fixedpoint, fi=probdiffeq.strategy_smoother_fixedinterval)[strat]()
    S = dict(plain=probdiffeq.solver, mle=probdiffeq.solver_mle, dyn=probdiffeq.solver_dynamic)[calib]
    solver = S(strategy=st, constraint=c)
    err = probdiffeq.error_residual_std(constraint=c)
    return prior, solver, err

# A: sampling with zero draws
orig = brandom.normal
brandom.normal = lambda key, shape, dtype=None: jnp.zeros(shape)
for ssmn in SSM:
    prior, solver, err = build(ssmn, "fi")
    solve = ivpsolve.solve_fixed_grid(solver=solver)
    sol = solve(prior, grid=jnp.linspace(0,2,6))
    smp = sol.solution_full.posterior.sample(jax.random.PRNGKey(1))
    print("A", ssmn, [float(jnp.abs(a-b).max()) for a,b in zip(smp, sol.u.mean)])
brandom.normal = orig

# B: checkpoint superset
for ssmn in SSM:
  for strat in ["filter","fp"]:
    for calib in ["plain","mle","dyn"]:
        prior, solver, err = build(ssmn, strat, calib)
        solve = jax.jit(ivpsolve.solve_adaptive_save_at(solver=solver, error=err))
        A = jnp.asarray([0.0, 0.7, 2.0]); B = jnp.asarray([0.0, 0.31, 0.7, 0.70001, 1.3, 1.9, 2.0])
        sa = solve(prior, A, atol=1e-5, rtol=1e-5); sb = solve(prior, B, atol=1e-5, rtol=1e-5)
        idx = jnp.asarray([0,2,6])
        dm = max(float(jnp.abs(a-b[idx]).max()) for a,b in zip(sa.u.mean, sb.u.mean))
        ds = max(float(jnp.abs(a-b[idx]).max()) for a,b in zip(jax.tree.leaves(sa.u.std), jax.tree.leaves(sb.u.std)))
        print("B", ssmn, strat, calib, dm, ds, sa.num_steps, sb.num_steps[idx], sa.output_scale.shape, sb.output_scale.shape)

import os
os.environ["XLA_FLAGS"]="--xla_cpu_multi_thread_eigen=false intra_op_parallelism_threads=1"
import jax, jax.numpy as jnp
jax.config.update("jax_enable_x64", True)
from probdiffeq import ivpsolve, probdiffeq
import numpy as np
from fractions import Fraction as Fr
import math
# ---- C11: lifted ODE rhs: f(u,t) = u^2 * t + 3t^2 ; curve u(t) with derivatives c_j at t0
def series_mul(a,b,N): return [sum(a[i]*b[k-i] for i in range(k+1)) for k in range(N)]
N=6
t0=Fr(1,3); der=[Fr(1,2),Fr(-2,3),Fr(5,4),Fr(1,7),Fr(-3,5),Fr(2,9),Fr(1,1)]
u=[der[j]/math.factorial(j) for j in range(N)]   # taylor coeffs
tt=[t0,Fr(1)]+[Fr(0)]*(N-2)
f = [x+y for x,y in zip(series_mul(series_mul(u,u,N),tt,N), [3*z for z in series_mul(tt,tt,N)])]
exact=[float(f[j]*math.factorial(j)) for j in range(N)]
vf = probdiffeq.ode(lambda y, *, t: y*y*t + 3*t*t)
for m in [0,1,3,5]:
    lifted = vf.jet_lift(lift_by=m)
    out = lifted.vector_field(jet_coords=[jnp.asarray([float(d)]) for d in der[:1+m]], t=float(t0))
    print("lift",m, [float(o[0]) for o in out], "exact", exact[:m+1], lifted.tcoeff_indices_output)
# second-order: f(u,du,t)= u*du + t
u1=[(j+1)*u[j+1] for j in range(N-1)]+[Fr(0)]
f2=[x+y for x,y in zip(series_mul(u,u1,N), tt)]
exact2=[float(f2[j]*math.factorial(j)) for j in range(N)]
vf2 = probdiffeq.ode_order_two(lambda y, dy, *, t: y*dy + t)
for m in [0,2,4]:
    lifted = vf2.jet_lift(lift_by=m)
    out = lifted.vector_field(jet_coords=[jnp.asarray([float(d)]) for d in der[:2+m]], t=float(t0))
    print("lift2",m, [float(o[0]) for o in out], "exact", exact2[:m+1], lifted.tcoeff_indices_output)
for bad in [-1, 3]:
    try:
        vf.jet_lift(lift_by=bad).vector_field(jet_coords=[jnp.asarray([1.0])]*3, t=0.0); print("lift_by",bad,"NO ERROR")
    except Exception as e: print("lift_by",bad,type(e).__name__)
# ---- C18 HNW
def hnw(f, t0, y0, p, rtol, atol, rms):
    sc = atol+np.abs(y0)*rtol; nrm = (lambda v: np.sqrt(np.mean((v/sc)**2))) if rms else (lambda v: np.linalg.norm(v/sc))
    f0=f(y0,t0); d0=nrm(y0); d1=nrm(f0)
    h0 = 1e-6 if (d0<1e-5 or d1<1e-5) else 0.01*d0/d1
    y1=y0+h0*f0; f1=f(y1,t0+h0); d2=nrm(f1-f0)/h0
    h1 = max(1e-6,h0*1e-3) if max(d1,d2)<=1e-15 else (0.01/max(d1,d2))**(1/(p+1))
    return min(100*h0,h1)
g = lambda y,t: np.asarray([0.5*y[0]-0.05*y[0]*y[1], -0.5*y[1]+0.05*y[0]*y[1]])
vfl = probdiffeq.ode(lambda y, *, t: jnp.asarray([0.5*y[0]-0.05*y[0]*y[1], -0.5*y[1]+0.05*y[0]*y[1]]))
for y0 in [np.asarray([20.,20.]), np.asarray([1e-3,2.0])]:
    for tol in [1e-3,1e-8]:
        r = float(ivpsolve.dt0_adaptive(vfl, (jnp.asarray(y0),), 0.0, error_contraction_rate=4, rtol=tol, atol=tol))
        print("dt0_adaptive", y0, tol, "repo", r, "hnw-rms", hnw(g,0.0,y0,4,tol,tol,True), "hnw-2norm", hnw(g,0.0,y0,4,tol,tol,False))

import os
os.environ["XLA_FLAGS"]="--xla_cpu_multi_thread_eigen=false intra_op_parallelism_threads=1"
import jax, jax.numpy as jnp
jax.config.update("jax_enable_x64", True)
from probdiffeq import ivpsolve, probdiffeq
import numpy as np
SSM = dict(dense=probdiffeq.state_space_model_dense, iso=probdiffeq.state_space_model_isotropic, bd=probdiffeq.state_space_model_blockdiag)
def make(ssmn, strat):
    def solve_one(u0, lam):
        vf = probdiffeq.ode(lambda y, *, t: -lam*y*(1-y/3.0))
        ssm = SSM[ssmn]()
        tc,_ = probdiffeq.jetexpand_ode_padded_scan(num=3)(vf,(u0,),t=0.0)
        prior = ssm.prior_wiener_integrated(tc)
        c = ssm.constraint_ode_ts1(vf)
        st = dict(filter=probdiffeq.strategy_filter, fp=probdiffeq.strategy_smoother_fixedpoint)[strat]()
        solver = probdiffeq.solver_dynamic(strategy=st, constraint=c)
        err = probdiffeq.error_residual_std(constraint=c)
        sol = ivpsolve.solve_adaptive_save_at(solver=solver, error=err)(prior, jnp.linspace(0,1,5), atol=1e-6, rtol=1e-6)
        return sol.u.mean[0], sol.u.std[0], sol.num_steps
    return solve_one
u0s = jnp.asarray([[0.5,1.0],[1.0,2.0],[0.1,0.2]]); lams = jnp.asarray([0.3, 3.0, 30.0])
for ssmn in SSM:
  for strat in ["filter","fp"]:
    f = make(ssmn,strat)
    bm, bs, bn = jax.jit(jax.vmap(f))(u0s, lams)
    for i in range(3):
        m,s,n = jax.jit(f)(u0s[i], lams[i])
        print(ssmn, strat, i, "steps", np.asarray(n)[-1], np.asarray(bn[i])[-1], "dmean %.2e"%float(jnp.abs(m-bm[i]).max()), "dstd %.2e"%float(jnp.abs(jnp.asarray(s)-jnp.asarray(bs[i])).max()), "finite", bool(jnp.all(jnp.isfinite(bm[i]))))
    with jax.disable_jit():
        m,s,n = f(u0s[0], lams[0])
    mj,sj,nj = jax.jit(f)(u0s[0], lams[0])
    print("  eager-vs-jit dmean %.2e"%float(jnp.abs(m-mj).max()), np.asarray(n)[-1], np.asarray(nj)[-1])

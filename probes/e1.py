import jax, jax.numpy as jnp
jax.config.update("jax_enable_x64", True)
from probdiffeq import ivpsolve, probdiffeq
import numpy as np

@probdiffeq.ode
def vf(y, /, *, t):
    return 2*y*(1-y)

u0 = jnp.asarray([0.1, 0.3])
for ssmf in [probdiffeq.state_space_model_dense, probdiffeq.state_space_model_isotropic, probdiffeq.state_space_model_blockdiag]:
    ssm = ssmf()
    tc,_ = probdiffeq.jetexpand_ode_padded_scan(num=2)(vf,(u0,),t=0.0)
    prior = ssm.prior_wiener_integrated(tc)
    c = ssm.constraint_ode_ts0(vf)
    grid = jnp.asarray([0.0,0.1,0.25,0.45,0.5])
    out={}
    for nm, st in [("filter", probdiffeq.strategy_filter()), ("fi", probdiffeq.strategy_smoother_fixedinterval())]:
        solver = probdiffeq.solver(strategy=st, constraint=c)
        sol = ivpsolve.solve_fixed_grid(solver=solver)(prior, grid=grid)
        out[nm]=sol
    print(ssmf.__name__)
    print(" filter mean u:", np.asarray(out["filter"].u.mean[0]))
    print(" smooth mean u:", np.asarray(out["fi"].u.mean[0]))
    print(" filter std u:", np.asarray(out["filter"].u.std[0]))
    print(" smooth std u:", np.asarray(out["fi"].u.std[0]))
    print(" t", out["fi"].t, jax.tree.map(jnp.shape, out["fi"].u.mean))

import os
os.environ["XLA_FLAGS"]="--xla_cpu_multi_thread_eigen=false intra_op_parallelism_threads=1"
import jax, jax.numpy as jnp
jax.config.update("jax_enable_x64", True)
from probdiffeq import ivpsolve, probdiffeq
from probdiffeq.util import test_util
import numpy as np, scipy.integrate, sys
which = sys.argv[1]
if which=="lin":
    f=lambda y,t: jnp.asarray([-y[0]+jnp.sin(t), -2*y[1]+y[0]]); fn=lambda t,y: np.asarray([-y[0]+np.sin(t), -2*y[1]+y[0]]); u0=jnp.asarray([1.0,0.5])
elif which=="linaut":
    f=lambda y,t: jnp.asarray([-y[0], -2*y[1]+y[0]]); fn=lambda t,y: np.asarray([-y[0], -2*y[1]+y[0]]); u0=jnp.asarray([1.0,0.5])
elif which=="logi":
    f=lambda y,t: 2*y*(1-y); fn=lambda t,y: 2*y*(1-y); u0=jnp.asarray([0.1,0.4])
T=3.0
vf = probdiffeq.ode(lambda y, *, t: f(y,t))
nu=int(sys.argv[2]); tol=float(sys.argv[3])
ssm = probdiffeq.state_space_model_dense()
tc,_ = probdiffeq.jetexpand_ode_padded_scan(num=nu)(vf,(u0,),t=0.0)
prior = ssm.prior_wiener_integrated(tc)
c = ssm.constraint_ode_ts0(vf) if sys.argv[4]=="ts0" else ssm.constraint_ode_ts1(vf)
solver = probdiffeq.solver(strategy=probdiffeq.strategy_filter(), constraint=c)
err = probdiffeq.error_residual_std(constraint=c)
solve = test_util.solve_adaptive_save_every_step(solver=solver, error=err)
sol = solve(prior, 0.0, T, atol=tol, rtol=tol)
ts = np.asarray(sol.t)
ref = scipy.integrate.solve_ivp(fn, (0,T), np.asarray(u0), t_eval=ts, rtol=1e-13, atol=1e-13, method="DOP853").y.T
m = np.asarray(sol.u.mean[0])
for i in range(len(ts)):
    print(i, "t=%.4f dt=%.4f"%(ts[i], ts[i]-ts[i-1] if i else 0), "err", np.abs(m[i]-ref[i]), "std", np.asarray(sol.u.std[0][i]))

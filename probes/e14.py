import os
import jax, jax.numpy as jnp
jax.config.update("jax_enable_x64", True)
import numpy as np
from probdiffeq._probdiffeq import ssm_impl_dense as D
from probdiffeq.backend import linalg
# minimal: x ~ N(0, I2), y = [x1; x1] noise-free (duplicate rows) ; and y = x1 with x2 free
def joint_err(A, Lx, Ln, solve):
    n=A.shape[1]; k=A.shape[0]
    rv = D.DenseNormal(jnp.zeros(n), jnp.asarray(Lx), None); noise = D.DenseNormal(jnp.zeros(k), jnp.asarray(Ln), None)
    cond = D.DenseLatentCond.from_linop_and_noise(jnp.asarray(A), noise)
    obs, bwd = cond.revert(rv, solve_triu=solve)
    G=np.asarray(bwd.A); Lc=np.asarray(bwd.noise.cholesky_flat); Ly=np.asarray(obs.cholesky_flat)
    Pyy=Ly@Ly.T; Px=Lx@Lx.T
    print(" G=\n",np.round(G,3)," cond cov=\n",np.round(Lc@Lc.T,3), "\n Pxx rebuilt=\n", np.round(G@Pyy@G.T+Lc@Lc.T,3), "\n true Pxx=\n", np.round(Px,3), "\n Pxy rebuilt\n", np.round(G@Pyy,3), "true", np.round(Px@A.T,3))
print("dup rows, noise-free")
joint_err(np.array([[1.,0.],[1.,0.]]), np.eye(2), np.zeros((2,2)), linalg.lstsq_svd)
print("rows [x1],[x1+x2]... with noise only on first (diagzeros)")
joint_err(np.array([[1.,0.],[1.,1.],[2.,1.]]), np.eye(2), np.zeros((3,3)), linalg.lstsq_svd)

import os
os.environ["XLA_FLAGS"]="--xla_cpu_multi_thread_eigen=false intra_op_parallelism_threads=1"
import jax, jax.numpy as jnp, time, sys, itertools, random
jax.config.update("jax_enable_x64", True)
from probdiffeq import ivpsolve, probdiffeq
import numpy as np, scipy.integrate

def lv(y,t): return jnp.asarray([0.5*y[0]-0.05*y[0]*y[1], -0.5*y[1]+0.05*y[0]*y[1]])
def lv_np(t,y): return np.asarray([0.5*y[0]-0.05*y[0]*y[1], -0.5*y[1]+0.05*y[0]*y[1]])
def logi(y,t): return 2*y*(1-y)
def lin(y,t): return jnp.asarray([-y[0]+jnp.sin(t), -2*y[1]+y[0]])
def lin_np(t,y): return np.asarray([-y[0]+np.sin(t), -2*y[1]+y[0]])
def ho(y,t): return jnp.asarray([y[1], -4*y[0]])
PROBS = {
 "logistic": (logi, jnp.asarray([0.1,0.4]), 2.0, lambda t: (lambda e: np.stack([0.1*e/(0.9+0.1*e), 0.4*e/(0.6+0.4*e)],-1))(np.exp(2*t))),
 "ho": (ho, jnp.asarray([1.0,0.0]), 3.0, lambda t: np.stack([np.cos(2*t), -2*np.sin(2*t)],-1)),
 "lv": (lv, jnp.asarray([20.,20.]), 2.0, None),
 "lin": (lin, jnp.asarray([1.0,0.5]), 3.0, None),
}
NP = {"lv": lv_np, "lin": lin_np}
SSM = dict(dense=probdiffeq.state_space_model_dense, iso=probdiffeq.state_space_model_isotropic, bd=probdiffeq.state_space_model_blockdiag)
rng = random.Random(int(sys.argv[1]) if len(sys.argv)>1 else 0)
rows=[]
combos = list(itertools.product(PROBS, SSM, ["plain","mle","dyn"], ["filter","fp"], ["ts0","ts1"], [1,2,3,5]))
rng.shuffle(combos)
t_start=time.time()
for (pn, ssmn, calib, strat, linz, nu) in combos[:int(sys.argv[2]) if len(sys.argv)>2 else 20]:
    f,u0,T,exact = PROBS[pn]
    vf = probdiffeq.ode(lambda y, *, t, f=f: f(y,t))
    ssm = SSM[ssmn]()
    tc,_ = probdiffeq.jetexpand_ode_padded_scan(num=nu)(vf,(u0,),t=0.0)
    prior = ssm.prior_wiener_integrated(tc)
    c = ssm.constraint_ode_ts0(vf) if linz=="ts0" else ssm.constraint_ode_ts1(vf, )
    st = dict(filter=probdiffeq.strategy_filter, fp=probdiffeq.strategy_smoother_fixedpoint)[strat]()
    S = dict(plain=probdiffeq.solver, mle=probdiffeq.solver_mle, dyn=probdiffeq.solver_dynamic)[calib]
    solver = S(strategy=st, constraint=c)
    err = probdiffeq.error_residual_std(constraint=c)
    solve = jax.jit(ivpsolve.solve_adaptive_save_at(solver=solver, error=err))
    save_at = jnp.asarray(np.sort(np.concatenate([[0.0,T], np.asarray([rng.uniform(0,T) for _ in range(5)])])))
    if exact is None:
        ref = scipy.integrate.solve_ivp(NP[pn], (0,T), np.asarray(u0), t_eval=np.asarray(save_at), rtol=1e-13, atol=1e-13, method="DOP853").y.T
    else:
        ref = exact(np.asarray(save_at))
    for tol in [1e-2,1e-4,1e-6,1e-8]:
        if nu==1 and tol<1e-5: continue
        if nu==2 and tol<1e-7: continue
        sol = solve(prior, save_at, atol=tol, rtol=tol)
        m = np.asarray(sol.u.mean[0])
        ratio = np.max(np.abs(m-ref)/(tol+tol*np.abs(ref)))
        rows.append((ratio, pn, ssmn, calib, strat, linz, nu, tol, int(sol.num_steps[-1])))
        print(f"{ratio:9.3g}", pn, ssmn, calib, strat, linz, nu, tol, int(sol.num_steps[-1]), flush=True)
print("max", max(rows)[:], "time", time.time()-t_start)

import jax, jax.numpy as jnp
jax.config.update("jax_enable_x64", True)
from probdiffeq import ivpsolve, probdiffeq
import numpy as np
rng=np.random.default_rng(0)
LOG=[]
def py_while(cond, body, init=None):
    s=init; n=0
    while bool(cond(s)): s=body(s); n+=1
    LOG.append(n); return s
cls = {"feasible":0,"budget":0,"increment":0,"both":0}
worst_opt=0; affine_bad=0; stats_bad=0; inc_examples=[]
for trial in range(400):
    D = rng.integers(2,8); m_ = rng.integers(1,D)
    affine = rng.random()<0.4
    J0 = rng.standard_normal((m_,D)); J0/= np.linalg.norm(J0,axis=1,keepdims=True)
    b0 = rng.standard_normal(m_)*0.3
    Q = rng.standard_normal((m_,D,D))*(0 if affine else 0.15)
    def g(x, J0=J0,b0=b0,Q=Q): return jnp.asarray(J0)@x + jnp.asarray(b0) + jnp.einsum("mij,i,j->m", jnp.asarray(Q), x, x)
    mean = rng.standard_normal(D)
    kindL = rng.choice(["full","lowrank","zero","diag"])
    L = {"full": rng.standard_normal((D,D)), "lowrank": rng.standard_normal((D,2))@rng.standard_normal((2,D)), "zero": np.zeros((D,D)), "diag": np.diag(np.exp(rng.uniform(-3,1,D)))}[kindL]
    tol = 10**rng.uniform(-12,-4); maxiter = int(rng.integers(1,30))
    with jax.disable_jit():
        x, stats = probdiffeq.lstsq_constrained_gauss_newton(maxiter=maxiter, tol=tol, while_loop=py_while)(g, jnp.asarray(mean), jnp.asarray(mean), jnp.asarray(L))
    iters = LOG[-1]
    gx = np.asarray(g(x)); feas = np.linalg.norm(gx) <= tol*np.sqrt(gx.size)
    budget = int(stats["iters"])==maxiter
    incr = np.linalg.norm(np.asarray(stats["final_increment"])) <= tol*np.sqrt(D)
    if int(stats["iters"])!=iters or np.abs(np.asarray(stats["final_constraint"])-gx).max()>1e-12: stats_bad+=1
    if feas: cls["feasible"]+=1
    elif budget: cls["budget"]+=1
    elif incr: cls["increment"]+=1; inc_examples.append((kindL, affine, float(np.linalg.norm(gx)), tol, iters))
    else: cls["both"]+=1; print("NEITHER", kindL, affine, np.linalg.norm(gx), tol, iters, maxiter, np.linalg.norm(np.asarray(stats["final_increment"])))
    # optimality
    Jx = np.asarray(jax.jacfwd(g)(x)); Cm = L@L.T; Bm = Cm@Jx.T
    disp = np.asarray(x)-mean
    if np.linalg.norm(Bm)>0:
        coef,*_ = np.linalg.lstsq(Bm, disp, rcond=None); res = np.linalg.norm(disp-Bm@coef)
    else: res=np.linalg.norm(disp)
    if feas: worst_opt=max(worst_opt, res/(np.linalg.norm(np.asarray(stats["final_increment"]))+1e-300))
    if affine and kindL in ("full","diag"):
        S = J0@Cm@J0.T; ref = mean - Cm@J0.T@np.linalg.solve(S, J0@mean+b0)
        if np.abs(ref-np.asarray(x)).max()>1e-8 or iters!=1: affine_bad+=1; print("affine", kindL, iters, np.abs(ref-np.asarray(x)).max(), maxiter)
print(cls, "stats_bad", stats_bad, "affine_bad", affine_bad, "worst opt residual / last increment", worst_opt)
print(inc_examples[:8])

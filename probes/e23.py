import jax, jax.numpy as jnp, time, random
jax.config.update("jax_enable_x64", True)
from typing import NamedTuple, Any
from probdiffeq import ivpsolve
from probdiffeq._probdiffeq import utilities
import numpy as np
class St(NamedTuple):
    t: Any; num_steps: Any; uid: Any
EV=[]
class ScriptedSolver:
    is_suitable_for_save_at=True; is_suitable_for_save_every_step=True
    def __init__(s): s.n=0
    def init(s, t, u, damp): EV.append(("init",float(t))); return St(jnp.asarray(t), jnp.asarray(0), jnp.asarray(0))
    def step(s, state, dt, damp):
        s.n+=1; new=St(state.t+dt, state.num_steps+1, jnp.asarray(s.n)); EV.append(("step", int(state.uid), float(state.t), float(dt), s.n)); return new
    def interpolate_fwd(s, t, interp_from, interp_to):
        s.n+=1; EV.append(("interp_fwd", float(t), int(interp_from.uid), float(interp_from.t), int(interp_to.uid), float(interp_to.t)))
        sol=St(jnp.asarray(t), interp_to.num_steps, jnp.asarray(s.n)); 
        return sol, utilities.InterpResult(step_from=interp_to, interp_from=St(jnp.asarray(t), interp_from.num_steps, jnp.asarray(s.n)))
    def interpolate_fwd_at_t1(s, t, interp_from, interp_to):
        EV.append(("interp_at", float(t), int(interp_from.uid), float(interp_from.t), int(interp_to.uid), float(interp_to.t)))
        return interp_to, utilities.InterpResult(step_from=interp_to, interp_from=interp_to)
    def userfriendly_output(s, solution0, solution, solution1):
        return jax.tree.map(lambda a,b: jnp.concatenate([a[None], b]), solution0, solution)
class ScriptedError:
    def __init__(s, hadm, gamma): s.hadm=hadm; s.gamma=gamma
    def init_error(s): return ()
    def estimate_error_norm(s, state, previous, proposed, dt, atol, rtol, damp):
        ep = (s.hadm(float(previous.t))/float(dt))**s.gamma
        EV.append(("error", int(previous.uid), int(proposed.uid), float(dt), ep)); return jnp.asarray(ep), state
class RecCtrl:
    def __init__(s, c): s.c=c
    def init(s, dt): return s.c.init(dt)
    def apply(s, dt, st, error_power):
        out=s.c.apply(dt, st, error_power=error_power); EV.append(("ctrl", float(dt), float(error_power), float(out[0]), jax.tree.map(float, st), jax.tree.map(float, out[1]))); return out
def py_while(cond, body, init=None):
    s=init; k=0
    while bool(cond(s)):
        EV.append(("iter", type(s).__name__)); s=body(s); k+=1
        assert k<10000
    return s
rng=random.Random(0)
t0=time.time(); total_attempts=0; viol=0
for run in range(200):
    EV.clear()
    bps=sorted(rng.uniform(0,4) for _ in range(3)); vals=[2.0**rng.randint(-6,0) for _ in range(4)]
    hadm=lambda t: vals[sum(t>=b for b in bps)]
    ctrl = ivpsolve.control_proportional_integral(safety=rng.uniform(0.6,0.99), factor_min=rng.uniform(0.05,0.9), factor_max=rng.uniform(1.1,20)) if rng.random()<0.5 else ivpsolve.control_integral(safety=rng.uniform(0.6,0.99), factor_min=rng.uniform(0.05,0.9), factor_max=rng.uniform(1.1,20))
    clip = rng.random()<0.5
    save_at = jnp.asarray(sorted({0.0,4.0}|{rng.randint(1,63)/16 for _ in range(rng.randint(0,6))}))
    solve = ivpsolve.solve_adaptive_save_at(solver=ScriptedSolver(), error=ScriptedError(hadm, rng.uniform(0.3,2)), control=RecCtrl(ctrl), clip_dt=clip, while_loop=py_while)
    with jax.disable_jit():
        sol = solve(None, save_at, atol=1e-3, rtol=1e-3, dt0=2.0**rng.randint(-8,2))
    total_attempts += sum(e[0]=="step" for e in EV)
    # a couple of oracle clauses
    last_rej=None
    accepted={0}
    for e in EV:
        if e[0]=="step":
            if e[1] not in accepted: viol+=1; print("R1", e)
            if last_rej is not None and not (e[1]==last_rej[0] and e[3]<last_rej[1]): viol+=1; print("R2", e, last_rej)
            cur=e
        if e[0]=="error":
            if e[4]>=1: accepted.add(e[2]); last_rej=None
            else: last_rej=(e[1], e[3])
        if e[0]=="ctrl":
            r=e[3]/e[1]
            if not (ctrl.factor_min*(1-1e-12)<=r<=ctrl.factor_max*(1+1e-12)): viol+=1; print("R3", e)
        if e[0].startswith("interp"): accepted.add(max(e[2],e[4]))
    if not np.allclose(np.asarray(sol.t), np.asarray(save_at), atol=1e-8, rtol=0): viol+=1; print("R5", sol.t, save_at)
print("runs 200 attempts", total_attempts, "violations", viol, "time %.1f"%(time.time()-t0))
print(EV[:12])

import os
os.environ["XLA_FLAGS"]="--xla_cpu_multi_thread_eigen=false intra_op_parallelism_threads=1"
import jax, jax.numpy as jnp
jax.config.update("jax_enable_x64", True)
from probdiffeq import ivpsolve, probdiffeq
import numpy as np, ext
SSM = dict(dense=probdiffeq.state_space_model_dense, iso=probdiffeq.state_space_model_isotropic, bd=probdiffeq.state_space_model_blockdiag)
vf = probdiffeq.ode(lambda y, *, t: jnp.asarray([0.5*y[0]-0.3*y[0]*y[1], -0.5*y[1]+0.3*y[0]*y[1]+jnp.sin(t), y[0]*y[2]-t]), jacobian=probdiffeq.jacobian_materialize())
u0 = jnp.asarray([0.6,0.7,-0.2]); grid=jnp.asarray([0.0,0.1,0.25,0.45,0.5,0.8])
for strat in ["filter","fi","fp"]:
  for calib in ["plain","mle","dyn"]:
    res={}
    for ssmn in SSM:
        ssm=SSM[ssmn](); tc,_ = probdiffeq.jetexpand_ode_padded_scan(num=3)(vf,(u0,),t=0.0)
        prior = ssm.prior_wiener_integrated(tc)
        c = ssm.constraint_ode_ts0(vf)
        S = dict(plain=probdiffeq.solver, mle=probdiffeq.solver_mle, dyn=probdiffeq.solver_dynamic)[calib]
        st = dict(filter=probdiffeq.strategy_filter, fi=probdiffeq.strategy_smoother_fixedinterval, fp=probdiffeq.strategy_smoother_fixedpoint)[strat]()
        solver=S(strategy=st, constraint=c)
        if strat=="fp":
            err=probdiffeq.error_residual_std(constraint=c)
            sol = ivpsolve.solve_adaptive_save_at(solver=solver, error=err)(prior, grid, atol=1e-4, rtol=1e-4)
        else:
            sol = ivpsolve.solve_fixed_grid(solver=solver)(prior, grid=grid)
        m, C = sol.u.to_multivariate_normal()
        res[ssmn]=(np.asarray(m), np.asarray(C), np.asarray(sol.output_scale), np.asarray(sol.num_steps))
    dm = lambda a,b: np.abs(res[a][0]-res[b][0]).max()/np.abs(res[a][0]).max()
    dc = lambda a,b: np.abs(res[a][1]-res[b][1]).max()/np.abs(res[a][1]).max()
    sd, sb = res["dense"][2], res["bd"][2]
    energy = np.abs(np.sqrt(np.mean(sb**2,axis=-1)) - sd).max() if sb.ndim==2 else None
    print(strat, calib, "mean d-i %.1e d-b %.1e"%(dm("dense","iso"),dm("dense","bd")), "cov d-i %.1e d-b %.1e"%(dc("dense","iso"),dc("dense","bd")), "scale d-i %.1e"%np.abs(res["dense"][2]-res["iso"][2]).max(), "bd energy split", energy, "steps", res["dense"][3][-1], res["iso"][3][-1], res["bd"][3][-1])

import jax, jax.numpy as jnp
jax.config.update("jax_enable_x64", True)
from probdiffeq import ivpsolve, probdiffeq
from probdiffeq.util import gram_util, test_util
import numpy as np, scipy.linalg

# --- 4: time-dependent vf, Taylor coefficients
@probdiffeq.ode
def vf(y, /, *, t):
    return y*y + t
u0 = jnp.asarray([0.5])
# exact: u' = u^2 + t; u''=2uu'+1; u''' = 2u'^2+2uu''
u=0.5; t=0.3
d1=u*u+t; d2=2*u*d1+1; d3=2*d1*d1+2*u*d2
print("exact", [u,d1,d2,d3])
for name, alg in [("scan", probdiffeq.jetexpand_ode_padded_scan(num=3)), ("unroll", probdiffeq.jetexpand_ode_unroll(num=3)), ("jvp", probdiffeq.jetexpand_ode_via_jvp(num=3)), ("doubling", probdiffeq.jetexpand_ode_doubling_unroll(num_doublings=2))]:
    tc,_ = alg(vf,(u0,),t=0.3)
    print(name, [float(x[0]) for x in tc])

# --- 3: pade legendre 5
rng = np.random.default_rng(0)
for scale in [0.05, 0.5, 2.0, 8.0]:
    A = rng.standard_normal((5,5))*scale/5
    B = rng.standard_normal((5,2))
    ref_eA, ref_S = test_util.exp_gram_matrix_fraction()(jnp.asarray(A), jnp.asarray(B))
    for nm, pl in [("3",gram_util.pade_and_legendre_3()),("5",gram_util.pade_and_legendre_5()),("7",gram_util.pade_and_legendre_7()),("9",gram_util.pade_and_legendre_9()),("13",gram_util.pade_and_legendre_13())]:
        from probdiffeq.backend import linalg
        eA, L = gram_util.exp_gram_cholesky(pade_legendre=pl, solve=linalg.solve_lu)(jnp.asarray(A), jnp.asarray(B))
        print(scale, nm, float(jnp.abs(eA-ref_eA).max()), float(jnp.abs(L@L.T-ref_S).max()/jnp.abs(ref_S).max()))

# --- 6: dt0
@probdiffeq.ode
def vf2(y, /, *, t):
    return jnp.cos(t)*jnp.ones_like(y)
print("dt0 zero u0:", ivpsolve.dt0(vf2, (jnp.zeros(2),), t=0.0))
print("dt0_adaptive zero u0:", ivpsolve.dt0_adaptive(vf2, (jnp.zeros(2),), 0.0, error_contraction_rate=3, rtol=1e-3, atol=1e-3))

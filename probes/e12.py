import jax, jax.numpy as jnp
jax.config.update("jax_enable_x64", True)
from jax.experimental import checkify
from probdiffeq import ivpsolve, probdiffeq
import probdiffeq.backend.random as brandom
import itertools, numpy as np
# rank promotion sanitizer on a valid solve
jax.config.update("jax_numpy_rank_promotion", "raise")
vf = probdiffeq.ode(lambda y, *, t: -y + jnp.sin(t))
u0 = jnp.asarray([1.0, 0.3])
for f in [probdiffeq.state_space_model_dense, probdiffeq.state_space_model_isotropic, probdiffeq.state_space_model_blockdiag]:
    try:
        ssm=f(); tc,_ = probdiffeq.jetexpand_ode_padded_scan(num=2)(vf,(u0,),t=0.0)
        prior = ssm.prior_wiener_integrated(tc); c = ssm.constraint_ode_ts1(vf)
        solver = probdiffeq.solver_mle(strategy=probdiffeq.strategy_smoother_fixedpoint(), constraint=c)
        err = probdiffeq.error_residual_std(constraint=c)
        sol = ivpsolve.solve_adaptive_save_at(solver=solver, error=err)(prior, jnp.linspace(0,1,4), atol=1e-4, rtol=1e-4)
        print(f.__name__, "rank-promotion clean")
    except Exception as e:
        print(f.__name__, "rank promotion raised:", str(e)[:150])
jax.config.update("jax_numpy_rank_promotion", "allow")
# checkify on jitted solve
ssm=probdiffeq.state_space_model_dense(); tc,_ = probdiffeq.jetexpand_ode_padded_scan(num=2)(vf,(u0,),t=0.0)
prior = ssm.prior_wiener_integrated(tc); c = ssm.constraint_ode_ts1(vf)
solver = probdiffeq.solver_mle(strategy=probdiffeq.strategy_filter(), constraint=c)
err = probdiffeq.error_residual_std(constraint=c)
solve = ivpsolve.solve_adaptive_save_at(solver=solver, error=err)
chk = checkify.checkify(lambda p: solve(p, jnp.linspace(0,1,4), atol=1e-4, rtol=1e-4).u.mean[0], errors=checkify.float_checks|checkify.index_checks)
e, out = jax.jit(chk)(prior)
print("checkify:", e.get())
# rademacher enumeration interposer
n_in,n_out,d=2,3,2
allp = jnp.asarray(list(itertools.product([-1.0,1.0], repeat=n_in*d))).reshape(-1,n_in,d)
calls=[]
def rad(key, shape, dtype): calls.append((np.asarray(key).tolist(), shape)); assert shape==allp.shape, shape; return allp.astype(dtype)
brandom.rademacher = rad
h = probdiffeq.jacobian_monte_carlo_fwd(num_probes=allp.shape[0])
W = jnp.arange(1.0, 1+n_out*n_in).reshape(n_out,n_in)
fun = lambda x: jnp.tanh(W@x) * jnp.asarray([1.0,2.0])[None,:] + (W@x)[:, ::-1]**2
x = jnp.asarray([[0.1,0.2],[0.3,-0.4]])
st = h.init_jacobian_handler()
fx, Jt, st2 = h.calculate_trace_along_d(fun, x, st)
fxm, Jm, _ = probdiffeq.jacobian_materialize().calculate_trace_along_d(fun, x, ())
print("trace est vs exact", float(jnp.abs(Jt-Jm).max()), Jt.shape, "key advanced", not np.array_equal(np.asarray(st), np.asarray(st2)), calls)
